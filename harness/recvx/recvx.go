// Package recvx drives a real receiver.Receiver (Run loop, downloaders, token
// limits) on an instrumented bucket and checks delivery, token and memory-limit
// oracles over the recorded event logs. Shared by C08 (hostile blobs) and C16.
package recvx

import (
	"context"
	"fmt"
	"io"
	"os"
	"sort"
	"strings"
	"sync"
	"sync/atomic"
	"time"

	"github.com/sirupsen/logrus"

	"github.com/PowerDNS/lightningstream/snapshot"
	"github.com/PowerDNS/lightningstream/syncer/events"
	"github.com/PowerDNS/lightningstream/syncer/hooks"
	"github.com/PowerDNS/lightningstream/syncer/receiver"

	"verif/bucket"
	"verif/lsx"
	"verif/wire"
)

// BlobSpec describes one blob of an instance.
type BlobSpec struct {
	Kind  string `json:"kind"`            // valid | hostile | garbage-name
	Gen   string `json:"gen,omitempty"`   // hostile: generator name
	Seed  uint64 `json:"seed,omitempty"`  // hostile: generator seed
	Index int    `json:"index,omitempty"` // hostile: input index
	// AtCycle: the blob appears when this many List calls have completed (0 = present at start)
	AtCycle int `json:"at,omitempty"`
	// RemoveAtCycle: the blob is removed (cleaned) at this List count (0 = never)
	RemoveAtCycle int `json:"rm,omitempty"`
}

type InstSpec struct {
	Name  string     `json:"name"`
	Blobs []BlobSpec `json:"blobs"` // in timestamp order
}

// FaultSpec: the calls number From..To (1-based, per op) fail.
type FaultSpec struct {
	Op    string `json:"op"` // List | Load
	From  int    `json:"from"`
	To    int    `json:"to"`
	Every int    `json:"every,omitempty"` // if >0: every Every-th call in [From,To] fails instead of all
}

type Scenario struct {
	DB        string      `json:"db"`
	Own       string      `json:"own"`
	Insts     []InstSpec  `json:"insts"`
	Foreign   []string    `json:"foreign,omitempty"` // extra names placed in the bucket (other dbs, junk), content = valid blob
	DLimit    int         `json:"dlimit"`
	ZLimit    int         `json:"zlimit"`
	Faults    []FaultSpec `json:"faults,omitempty"`
	LoadDelay int         `json:"load_delay_us,omitempty"` // latency of every Load
	Consumer  string      `json:"consumer"`                // fast | slow | hold
	Bound     int         `json:"bound"`                   // List cycles allowed after the last change/fault
	// HeldBound: every instance has exactly one valid blob and nothing changes: then
	// (successful Loads - deliveries) is the number of snapshots held in memory by the receiver
	HeldBound bool `json:"held_bound,omitempty"`
	// ParkOnVanish: a downloader that finds its instance gone from the listing is held (at its log call, outside
	// every lock) for this many List cycles - the instance may reappear meanwhile
	ParkOnVanish int `json:"park_on_vanish,omitempty"`
}

// HostileBlob is provided by the caller (the C08 generators).
type HostileBlob func(gen string, seed uint64, index int) []byte

type Delivery struct {
	Instance string
	Name     string
	AtCycle  int
}

type Outcome struct {
	Deliveries     []Delivery
	ListCycles     int
	MaxInflight    int32
	MaxActiveD     float64
	MaxActiveZ     float64
	FinalActiveD   float64
	FinalActiveZ   float64
	LoadsByName    map[string]int // successful loads
	FaultsFired    int
	CyclesToAll    int // List cycles after the last change until every required delivery happened
	Violations     []Finding
	Inconclusive   string
	LimitReachedD  bool
	LimitReachedZ  bool
	MaxHeld        int // max over time of (successful Loads - deliveries), only with Scenario.HeldBound
	Superseded     int // deliveries skipped because a newer snapshot replaced an unconsumed one
	HostileLoaded  int
	RunReturned    bool
	RequiredCount  int
	UndecodableCnt int
}

type Finding struct{ Sig, Msg string }

func tsFor(i int) time.Time {
	return time.Date(2024, 5, 1, 10, 0, 0, 0, time.UTC).Add(time.Duration(i) * time.Second)
}

// ValidBlob is a small valid snapshot identifying instance and index.
func ValidBlob(db, inst string, i int) []byte {
	s := &wire.Snap{FormatVersion: 3, CompatVersion: 1,
		Meta: wire.Meta{GenerationID: "GX", InstanceID: inst, DatabaseName: db, TimestampNano: uint64(tsFor(i).UnixNano()), LmdbTxnID: int64(i + 1)},
		DBIs: []wire.DBI{{Name: "d", Entries: []wire.KV{{Key: []byte("k-" + inst), Val: []byte(fmt.Sprintf("v%d", i)), TS: uint64(1000 + i)}}}}}
	return wire.Gzip(wire.EncodeSnapshot(s))
}

var dbCounter int64

// UniqueDB returns a database name not used before in this process (the
// climit gauges are labelled by it).
func UniqueDB(prefix string) string {
	return fmt.Sprintf("%s%d", prefix, atomic.AddInt64(&dbCounter, 1))
}

// Run executes one scenario.
func Run(sc Scenario, hb HostileBlob, watchdog time.Duration) (out Outcome) {
	lsx.Quiet()
	out.LoadsByName = map[string]int{}
	b := bucket.New()
	type pending struct {
		name string
		data []byte
		at   int
		rm   int
	}
	var later []pending
	content := map[string][]byte{}
	instOf := map[string]string{}
	blobIdx := 0
	lastChange := 0
	for _, is := range sc.Insts {
		for _, bs := range is.Blobs {
			blobIdx++
			name := snapshot.Name(sc.DB, is.Name, "GX", tsFor(blobIdx))
			var data []byte
			switch bs.Kind {
			case "valid":
				data = ValidBlob(sc.DB, is.Name, blobIdx)
			case "hostile":
				data = hb(bs.Gen, bs.Seed, bs.Index)
			}
			content[name] = data
			instOf[name] = is.Name
			if bs.AtCycle > 0 || bs.RemoveAtCycle > 0 {
				later = append(later, pending{name, data, bs.AtCycle, bs.RemoveAtCycle})
				if bs.AtCycle > lastChange {
					lastChange = bs.AtCycle
				}
				if bs.RemoveAtCycle > lastChange {
					lastChange = bs.RemoveAtCycle
				}
			}
			if bs.AtCycle == 0 {
				b.Put(name, data)
			}
		}
	}
	for _, fn := range sc.Foreign {
		b.Put(fn, ValidBlob("other", "x", 1))
	}
	lastFault := map[string]int{}
	for _, f := range sc.Faults {
		if f.To > lastFault[f.Op] {
			lastFault[f.Op] = f.To
		}
	}

	var listCycles int32
	var faultsFired int32
	b.SetHook(func(op, name string, nth int) bucket.Decision {
		for _, f := range sc.Faults {
			if f.Op == op && nth >= f.From && nth <= f.To {
				if f.Every > 0 && (nth-f.From)%f.Every != 0 {
					continue
				}
				atomic.AddInt32(&faultsFired, 1)
				return bucket.Decision{Err: bucket.ErrInjected}
			}
		}
		if op == "Load" && sc.LoadDelay > 0 {
			time.Sleep(time.Duration(sc.LoadDelay) * time.Microsecond)
		}
		return bucket.Decision{}
	})

	conf := lsx.FastConfig(sc.Own)
	conf.MemoryDownloadedSnapshots = sc.DLimit
	conf.MemoryDecompressedSnapshots = sc.ZLimit
	ev := events.New()
	var logger logrus.FieldLogger = lsx.NullLogger()
	if sc.ParkOnVanish > 0 {
		l := logrus.New()
		l.SetOutput(io.Discard)
		l.SetLevel(logrus.WarnLevel)
		l.AddHook(parkHook{cycles: &listCycles, n: int32(sc.ParkOnVanish)})
		logger = l
	}
	if os.Getenv("VERIF_RECV_DEBUG") != "" {
		l := logrus.New()
		l.SetOutput(os.Stderr)
		l.SetLevel(logrus.DebugLevel)
		logger = l
	}
	r := receiver.New(b, conf, sc.DB, logger, sc.Own, ev, hooks.New())

	labelsD := map[string]string{"lmdb": sc.DB, "limit_name": "download"}
	labelsZ := map[string]string{"lmdb": sc.DB, "limit_name": "decompress"}
	var gmu sync.Mutex
	sample := func() {
		d, _ := lsx.Gauge("lightningstream_climit_active", labelsD)
		z, _ := lsx.Gauge("lightningstream_climit_active", labelsZ)
		gmu.Lock()
		if d > out.MaxActiveD {
			out.MaxActiveD = d
		}
		if z > out.MaxActiveZ {
			out.MaxActiveZ = z
		}
		gmu.Unlock()
	}

	// bucket evolution driven by completed List calls
	var emu sync.Mutex
	var loadsOK, delivered, maxHeld int64
	b.OnEvent = func(e bucket.Event) {
		if e.Op == "Load" && e.Err == "" {
			h := atomic.AddInt64(&loadsOK, 1) - atomic.LoadInt64(&delivered)
			for {
				m := atomic.LoadInt64(&maxHeld)
				if h <= m || atomic.CompareAndSwapInt64(&maxHeld, m, h) {
					break
				}
			}
		}
		if e.Op == "List" {
			n := int(atomic.AddInt32(&listCycles, 1))
			emu.Lock()
			for _, p := range later {
				if p.at == n {
					b.Put(p.name, p.data)
				}
				if p.rm == n {
					b.Remove(p.name)
				}
			}
			emu.Unlock()
		}
		sample()
	}

	ctx, cancel := context.WithCancel(context.Background())
	runDone := make(chan struct{})
	go func() {
		_ = r.Run(ctx)
		close(runDone)
	}()

	var dmu sync.Mutex
	stopConsumer := make(chan struct{})
	consumerDone := make(chan struct{})
	var held []snapshot.Update
	go func() {
		defer close(consumerDone)
		for {
			select {
			case <-stopConsumer:
				return
			default:
			}
			inst, upd := r.Next()
			sample()
			if inst == "" {
				time.Sleep(200 * time.Microsecond)
				continue
			}
			atomic.AddInt64(&delivered, 1)
			// delivered updates must be usable
			usable := upd.Snapshot != nil
			dmu.Lock()
			out.Deliveries = append(out.Deliveries, Delivery{inst, upd.NameInfo.FullName, int(atomic.LoadInt32(&listCycles))})
			dmu.Unlock()
			if !usable {
				dmu.Lock()
				out.Violations = append(out.Violations, Finding{"delivered-nil-snapshot", "Next() returned an update without snapshot: " + upd.NameInfo.FullName})
				dmu.Unlock()
			}
			switch sc.Consumer {
			case "slow":
				time.Sleep(3 * time.Millisecond)
				upd.Close()
			case "hold":
				// keep up to ZLimit-1 updates open for a while
				held = append(held, upd)
				if len(held) >= sc.ZLimit {
					time.Sleep(2 * time.Millisecond)
					for i := range held {
						held[i].Close()
						held[i].Close() // double close must be harmless
					}
					held = nil
				}
			default:
				upd.Close()
			}
		}
	}()

	// what must be delivered, evaluated on the final bucket content
	final := map[string][]string{} // instance -> names present at the end, sorted
	for name := range content {
		final[instOf[name]] = append(final[instOf[name]], name)
	}
	emuFinalRemoved := map[string]bool{}
	for _, p := range later {
		if p.rm > 0 {
			emuFinalRemoved[p.name] = true
		}
	}
	required := map[string]string{} // instance -> newest strictly valid name
	undecodable := map[string]bool{}
	for inst, names := range final {
		var present []string
		for _, n := range names {
			if !emuFinalRemoved[n] {
				present = append(present, n)
			}
		}
		sort.Strings(present)
		final[inst] = present
		for _, n := range names {
			if _, err := snapshot.LoadData(content[n]); err != nil {
				undecodable[n] = true
			}
		}
		if inst == sc.Own {
			continue
		}
		for i := len(present) - 1; i >= 0; i-- {
			if ws, err := wire.DecodeBlob(content[present[i]]); err == nil && lmdbStorable(ws) {
				required[inst] = present[i]
				break
			}
		}
	}
	out.RequiredCount = len(required)
	out.UndecodableCnt = len(undecodable)

	satisfied := func() bool {
		dmu.Lock()
		defer dmu.Unlock()
		for inst, need := range required {
			ok := false
			for _, d := range out.Deliveries {
				if d.Instance == inst && d.Name >= need {
					ok = true
				}
			}
			if !ok {
				return false
			}
		}
		return true
	}
	// the bound starts when bucket changes and faults are over
	startBound := lastChange
	if lf := lastFault["List"]; lf > startBound {
		startBound = lf
	}
	deadline := time.Now().Add(watchdog)
	// Load fault windows are counted in Load calls, which only happen while something is still to be
	// downloaded: every scripted Load failure costs the downloader one retry (about one List cycle), so the
	// allowance grows with the window instead of waiting for it to elapse
	allowance := sc.Bound + 3*lastFault["Load"]
	boundStart := -1
	// A List cycle is not a unit of download or decompression work: on a loaded machine one multi-megabyte blob can
	// take hundreds of cycles. The bound therefore runs from the last PROGRESS: a delivery, or the first successful
	// download of a name. Retrying the same name is not progress; a receiver that is stuck makes none.
	lastProgress := -1
	progress := func() int {
		seen := map[string]bool{}
		for _, e := range b.Log() {
			if e.Op == "Load" && e.Err == "" {
				seen[e.Name] = true
			}
		}
		dmu.Lock()
		n := len(out.Deliveries)
		dmu.Unlock()
		return n + len(seen)
	}
	nextProgressCheck := 0
	for {
		lc := int(atomic.LoadInt32(&listCycles))
		if boundStart < 0 && lc >= startBound {
			boundStart = lc
		}
		if boundStart >= 0 && lc >= nextProgressCheck {
			nextProgressCheck = lc + 50
			if pr := progress(); pr != lastProgress {
				if lastProgress >= 0 {
					boundStart = lc
				}
				lastProgress = pr
			}
		}
		if boundStart >= 0 && satisfied() {
			out.CyclesToAll = lc - boundStart
			break
		}
		if boundStart >= 0 && lc-boundStart > allowance {
			var missing []string
			dmu.Lock()
			for inst, need := range required {
				ok := false
				for _, d := range out.Deliveries {
					if d.Instance == inst && d.Name >= need {
						ok = true
					}
				}
				if !ok {
					missing = append(missing, inst+" needs "+need)
				}
			}
			dmu.Unlock()
			sort.Strings(missing)
			out.Violations = append(out.Violations, Finding{"not-delivered-within-bound", fmt.Sprintf("after %d List cycles without bucket changes, List faults or any progress (no delivery, no first download of a name) the newest decodable snapshot was not delivered for: %s", allowance, strings.Join(missing, "; "))})
			break
		}
		if time.Now().After(deadline) {
			out.Inconclusive = fmt.Sprintf("watchdog: %d list cycles, boundStart %d", lc, boundStart)
			break
		}
		time.Sleep(300 * time.Microsecond)
	}
	// let in-flight work settle: a few more cycles, then everything delivered must be closed
	settle := int(atomic.LoadInt32(&listCycles)) + 5
	for int(atomic.LoadInt32(&listCycles)) < settle && time.Now().Before(deadline) {
		time.Sleep(300 * time.Microsecond)
	}
	// drain: consumer keeps running until nothing more arrives for 5 cycles
	for k := 0; k < 50; k++ {
		dmu.Lock()
		n := len(out.Deliveries)
		dmu.Unlock()
		c0 := int(atomic.LoadInt32(&listCycles))
		for int(atomic.LoadInt32(&listCycles)) < c0+3 && time.Now().Before(deadline) {
			time.Sleep(300 * time.Microsecond)
		}
		dmu.Lock()
		same := n == len(out.Deliveries)
		dmu.Unlock()
		if same && b.MaxInflightLoad >= 0 {
			break
		}
	}
	close(stopConsumer)
	<-consumerDone
	for i := range held {
		held[i].Close()
	}
	// one more drain of anything that arrived while stopping
	for {
		inst, upd := r.Next()
		if inst == "" {
			break
		}
		dmu.Lock()
		out.Deliveries = append(out.Deliveries, Delivery{inst, upd.NameInfo.FullName, int(atomic.LoadInt32(&listCycles))})
		dmu.Unlock()
		upd.Close()
	}
	// quiescent now (if not inconclusive): no downloader holds a token
	if out.Inconclusive == "" {
		// allow downloaders that are between Acquire and hand-over to finish
		for k := 0; k < 200; k++ {
			d, _ := lsx.Gauge("lightningstream_climit_active", labelsD)
			z, _ := lsx.Gauge("lightningstream_climit_active", labelsZ)
			out.FinalActiveD, out.FinalActiveZ = d, z
			if d == 0 && z == 0 {
				break
			}
			time.Sleep(time.Millisecond)
			for {
				inst, upd := r.Next()
				if inst == "" {
					break
				}
				upd.Close()
			}
		}
	}
	cancel()
	select {
	case <-runDone:
		out.RunReturned = true
	case <-time.After(5 * time.Second):
	}
	out.MaxHeld = int(atomic.LoadInt64(&maxHeld))
	out.ListCycles = int(atomic.LoadInt32(&listCycles))
	out.MaxInflight = atomic.LoadInt32(&b.MaxInflightLoad)
	out.FaultsFired = int(atomic.LoadInt32(&faultsFired))

	// ---- oracles over the logs
	for _, e := range b.Log() {
		if e.Op == "Load" && e.Err == "" {
			out.LoadsByName[e.Name]++
		}
	}
	if int(out.MaxInflight) > sc.DLimit {
		out.Violations = append(out.Violations, Finding{"too-many-concurrent-loads", fmt.Sprintf("%d Load calls in flight with memory_downloaded_snapshots=%d", out.MaxInflight, sc.DLimit)})
	}
	// The climit_active gauges are decremented after the token went back into the channel, so a sample
	// can legitimately read limit+1 for an instant although no more than `limit` tokens are out: transient
	// gauge samples are recorded as observations only (they are exact at quiescence, see token-leak below).
	if out.MaxActiveD > float64(sc.DLimit)+1 || out.MaxActiveZ > float64(sc.ZLimit)+1 {
		out.Violations = append(out.Violations, Finding{"gauge-far-above-limit", fmt.Sprintf("climit_active download=%v (limit %d) decompress=%v (limit %d)", out.MaxActiveD, sc.DLimit, out.MaxActiveZ, sc.ZLimit)})
	}
	if sc.HeldBound && out.MaxHeld > sc.DLimit+sc.ZLimit {
		out.Violations = append(out.Violations, Finding{"more-snapshots-held-than-configured", fmt.Sprintf("%d blobs were downloaded and not yet handed to the merge loop at one moment; memory_downloaded_snapshots=%d + memory_decompressed_snapshots=%d", out.MaxHeld, sc.DLimit, sc.ZLimit)})
	}
	out.LimitReachedD = out.MaxActiveD >= float64(sc.DLimit)
	out.LimitReachedZ = out.MaxActiveZ >= float64(sc.ZLimit)
	if out.Inconclusive == "" && (out.FinalActiveD != 0 || out.FinalActiveZ != 0) {
		out.Violations = append(out.Violations, Finding{"token-leak", fmt.Sprintf("after everything was delivered and closed: climit_active download=%v decompress=%v (limits %d/%d)", out.FinalActiveD, out.FinalActiveZ, sc.DLimit, sc.ZLimit)})
	}
	for _, d := range out.Deliveries {
		if undecodable[d.Name] {
			out.Violations = append(out.Violations, Finding{"corrupt-blob-delivered", "undecodable blob handed to the merge loop: " + d.Name})
		}
		if _, known := content[d.Name]; !known {
			out.Violations = append(out.Violations, Finding{"foreign-name-delivered", "a name that is no snapshot of this database was delivered: " + d.Name})
		}
		if d.Instance == sc.Own {
			out.Violations = append(out.Violations, Finding{"own-snapshot-delivered", "Run() delivered a snapshot of the own instance: " + d.Name})
		}
	}
	for n := range undecodable {
		if out.LoadsByName[n] > 1 {
			out.Violations = append(out.Violations, Finding{"corrupt-blob-reloaded", fmt.Sprintf("undecodable blob %s was downloaded %d times (must be ignored after the first)", n, out.LoadsByName[n])})
		}
		if out.LoadsByName[n] > 0 {
			out.HostileLoaded++
		}
	}
	if !out.RunReturned {
		out.Violations = append(out.Violations, Finding{"receiver-run-did-not-return", "Receiver.Run did not return within 5s after cancellation"})
	}
	return out
}

// parkHook delays the goroutine that logs "no longer has any snapshots" until n further List cycles completed.
type parkHook struct {
	cycles *int32
	n      int32
}

func (h parkHook) Levels() []logrus.Level { return []logrus.Level{logrus.WarnLevel} }

func (h parkHook) Fire(e *logrus.Entry) error {
	if strings.Contains(e.Message, "no longer has any snapshots") {
		start := atomic.LoadInt32(h.cycles)
		deadline := time.Now().Add(2 * time.Second)
		for atomic.LoadInt32(h.cycles) < start+h.n && time.Now().Before(deadline) {
			time.Sleep(200 * time.Microsecond)
		}
	}
	return nil
}

// lmdbStorable: a snapshot that is valid protobuf can still not be merged when an entry has a key LMDB cannot store
// (empty or longer than 511 bytes); the receiver treats such a blob as corrupt (b2cd177), and so does the oracle.
func lmdbStorable(ws *wire.Snap) bool {
	for _, d := range ws.DBIs {
		for _, e := range d.Entries {
			if len(e.Key) == 0 || len(e.Key) > 511 {
				return false
			}
		}
	}
	return true
}
