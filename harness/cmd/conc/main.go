package main

import (
	"verif/props/concp"
	"verif/runner"
)

func main() {
	runner.Main(concp.C17())
}
