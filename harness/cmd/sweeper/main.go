package main

import (
	"verif/props/sweeperp"
	"verif/runner"
)

func main() {
	runner.Main(sweeperp.C13())
}
