package main

import (
	"verif/props/codec"
	"verif/runner"
)

func main() {
	runner.Main(codec.C07(), codec.C08())
}
