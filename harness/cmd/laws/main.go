package main

import (
	"verif/props/laws"
	"verif/runner"
)

func main() {
	runner.Main(laws.C02(), laws.C14())
}
