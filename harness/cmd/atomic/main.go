package main

import (
	"verif/props/atomicp"
	"verif/runner"
)

func main() {
	runner.Main(atomicp.C18())
}
