package main

import (
	"verif/props/recvp"
	"verif/runner"
)

func main() {
	runner.Main(recvp.C16())
}
