package main

import (
	"verif/props/names"
	"verif/runner"
)

func main() {
	runner.Main(names.C15())
}
