package main

import (
	"verif/props/cleanerp"
	"verif/runner"
)

func main() {
	runner.Main(cleanerp.C12())
}
