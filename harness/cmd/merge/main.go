package main

import (
	"verif/props/mergep"
	"verif/runner"
)

func main() {
	runner.Main(mergep.C01(), mergep.C10(), mergep.C04())
}
