package main

import (
	"verif/props/mirror"
	"verif/runner"
)

func main() {
	runner.Main(mirror.C20(), mirror.C11())
}
