package main

import (
	"verif/props/loopp"
	"verif/runner"
)

func main() {
	c10 := &runner.Property{ID: "C10loop", Level: "exploration", Rule: "debug", BatchSize: 12, CaseTimeout: 90e9, Cases: loopp.C10LoopCases, Run: loopp.RunC10Loop}
	runner.Main(loopp.C03(), loopp.C09(), loopp.C05(), c10)
}
