package main

import (
	"verif/props/snapp"
	"verif/runner"
)

func main() {
	runner.Main(snapp.C06())
}
