package main

import (
	"verif/props/strat"
	"verif/runner"
)

func main() {
	runner.Main(strat.C19())
}
