package lsx

import (
	"io"
	"time"

	"github.com/prometheus/client_golang/prometheus"
	"github.com/sirupsen/logrus"

	"github.com/PowerDNS/lightningstream/config"
)

// Quiet silences the repository's logging (the std logrus logger).
func Quiet() {
	logrus.SetOutput(io.Discard)
	logrus.SetLevel(logrus.ErrorLevel)
}

// NullLogger returns a logger that discards everything.
func NullLogger() logrus.FieldLogger {
	l := logrus.New()
	l.SetOutput(io.Discard)
	l.SetLevel(logrus.PanicLevel)
	return l
}

// FastConfig is a configuration with 1 ms poll/retry intervals. No verdict
// depends on these values; progress is measured in logical steps.
func FastConfig(instance string) config.Config {
	return config.Config{
		Instance:                    instance,
		LMDBPollInterval:            time.Millisecond,
		StoragePollInterval:         time.Millisecond,
		StorageRetryInterval:        time.Millisecond,
		StorageRetryCount:           5,
		MemoryDownloadedSnapshots:   2,
		MemoryDecompressedSnapshots: 3,
		LMDBLogStatsInterval:        0,
	}
}

// Gauge reads a prometheus gauge/counter of the default registry by metric
// name and label values; ok is false when the series does not exist.
func Gauge(metric string, labels map[string]string) (v float64, ok bool) {
	mfs, err := prometheus.DefaultGatherer.Gather()
	if err != nil {
		return 0, false
	}
	for _, mf := range mfs {
		if mf.GetName() != metric {
			continue
		}
	next:
		for _, m := range mf.GetMetric() {
			have := map[string]string{}
			for _, lp := range m.GetLabel() {
				have[lp.GetName()] = lp.GetValue()
			}
			for k, want := range labels {
				if have[k] != want {
					continue next
				}
			}
			if m.Gauge != nil {
				return m.GetGauge().GetValue(), true
			}
			if m.Counter != nil {
				return m.GetCounter().GetValue(), true
			}
		}
	}
	return 0, false
}
