// Package lsx adapts repository types to the harness's independent types.
package lsx

import (
	"bytes"
	"fmt"
	"io"

	"github.com/PowerDNS/lightningstream/snapshot"
	"github.com/PowerDNS/lightningstream/snapshot/gogosnapshot"

	"verif/wire"
)

// FromRepoDBI iterates a repository DBI completely.
func FromRepoDBI(d *snapshot.DBI) (wire.DBI, error) {
	out := wire.DBI{Name: d.Name(), Flags: d.Flags(), Transform: d.Transform()}
	d.ResetCursor()
	for {
		kv, err := d.Next()
		if err == io.EOF {
			return out, nil
		}
		if err != nil {
			return out, err
		}
		out.Entries = append(out.Entries, wire.KV{Key: kv.Key, Val: kv.Value, TS: kv.TimestampNano, Flags: kv.Flags})
	}
}

// FromRepo converts a decoded repository snapshot.
func FromRepo(s *snapshot.Snapshot) (*wire.Snap, error) {
	out := &wire.Snap{FormatVersion: s.FormatVersion, CompatVersion: s.CompatVersion,
		Meta: wire.Meta{GenerationID: s.Meta.GenerationID, InstanceID: s.Meta.InstanceID, Hostname: s.Meta.Hostname,
			LmdbTxnID: s.Meta.LmdbTxnID, TimestampNano: s.Meta.TimestampNano, DatabaseName: s.Meta.DatabaseName, FromLmdbTxnID: s.Meta.FromLmdbTxnID}}
	for i, d := range s.Databases {
		w, err := FromRepoDBI(d)
		if err != nil {
			return nil, fmt.Errorf("dbi #%d: %w", i, err)
		}
		out.DBIs = append(out.DBIs, w)
	}
	return out, nil
}

// ToRepo builds a repository snapshot through its public construction API.
// sized selects NewDBISize (pre-allocated) or NewDBI (growth path).
func ToRepo(s *wire.Snap, sized bool) *snapshot.Snapshot {
	out := &snapshot.Snapshot{FormatVersion: s.FormatVersion, CompatVersion: s.CompatVersion,
		Meta: snapshot.Meta{GenerationID: s.Meta.GenerationID, InstanceID: s.Meta.InstanceID, Hostname: s.Meta.Hostname,
			LmdbTxnID: s.Meta.LmdbTxnID, TimestampNano: s.Meta.TimestampNano, DatabaseName: s.Meta.DatabaseName, FromLmdbTxnID: s.Meta.FromLmdbTxnID}}
	for i := range s.DBIs {
		out.Databases = append(out.Databases, ToRepoDBI(&s.DBIs[i], sized))
	}
	return out
}

// SizeFrac scales the pre-allocation of "sized" DBIs (1 = enough for everything,
// smaller values exercise growth from a non-empty pre-allocated buffer).
var SizeFrac = 1.0

func ToRepoDBI(w *wire.DBI, sized bool) *snapshot.DBI {
	var d *snapshot.DBI
	if sized {
		n := 64
		for _, e := range w.Entries {
			n += len(e.Key) + len(e.Val) + 30
		}
		d = snapshot.NewDBISize(int(float64(n) * SizeFrac))
	} else {
		d = snapshot.NewDBI()
	}
	d.SetName(w.Name)
	d.SetFlags(w.Flags)
	d.SetTransform(w.Transform)
	for _, e := range w.Entries {
		d.Append(snapshot.KV{Key: e.Key, Value: e.Val, TimestampNano: e.TS, Flags: e.Flags})
	}
	return d
}

// RepoEncode writes the protobuf bytes with the repository's writer.
func RepoEncode(s *snapshot.Snapshot) ([]byte, error) {
	var buf bytes.Buffer
	_, err := s.WriteTo(&buf)
	return buf.Bytes(), err
}

// RepoDecode decodes protobuf bytes with the repository's hand-written reader
// and iterates every DBI.
func RepoDecode(pb []byte) (*wire.Snap, error) {
	s := new(snapshot.Snapshot)
	if err := s.Unmarshal(pb); err != nil {
		return nil, err
	}
	return FromRepo(s)
}

// GogoDecode decodes with the generated (standard) implementation shipped in
// the repository.
func GogoDecode(pb []byte) (*wire.Snap, error) {
	var g gogosnapshot.Snapshot
	if err := g.Unmarshal(pb); err != nil {
		return nil, err
	}
	out := &wire.Snap{FormatVersion: g.FormatVersion, CompatVersion: g.CompatVersion,
		Meta: wire.Meta{GenerationID: g.Meta.GenerationID, InstanceID: g.Meta.InstanceID, Hostname: g.Meta.Hostname,
			LmdbTxnID: g.Meta.LmdbTxnID, TimestampNano: g.Meta.TimestampNano, DatabaseName: g.Meta.DatabaseName, FromLmdbTxnID: g.Meta.FromLmdbTxnID}}
	for _, d := range g.Databases {
		w := wire.DBI{Name: d.Name, Flags: d.Flags, Transform: d.Transform}
		for _, e := range d.Entries {
			w.Entries = append(w.Entries, wire.KV{Key: e.Key, Val: e.Value, TS: e.TimestampNano, Flags: e.Flags})
		}
		out.DBIs = append(out.DBIs, w)
	}
	return out, nil
}
