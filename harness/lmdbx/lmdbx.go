// Package lmdbx holds the harness's LMDB helpers: environment creation (with
// the pre-sizing workaround for the lmdb-go RawRead fault), byte-exact dumps,
// and "application" writes.
package lmdbx

import (
	"bytes"
	"fmt"
	"os"
	"path/filepath"
	"sort"

	"github.com/PowerDNS/lmdb-go/lmdb"
)

type KV struct{ K, V []byte }

type DBIDump struct {
	Flags uint
	KVs   []KV
}

// Dump is a byte-exact image of an environment.
type Dump map[string]*DBIDump

// Open creates/opens an environment. data.mdb is pre-sized (sparse) so that a
// zero-length value at the very end of the last page cannot make lmdb-go's
// RawRead nil-check fault beyond end-of-file (dependency issue, see DESIGN.md).
func Open(dir string, mapSize int64) (*lmdb.Env, error) {
	if err := os.MkdirAll(dir, 0o775); err != nil {
		return nil, err
	}
	env, err := lmdb.NewEnv()
	if err != nil {
		return nil, err
	}
	if mapSize <= 0 {
		mapSize = 256 << 20
	}
	if err := env.SetMapSize(mapSize); err != nil {
		return nil, err
	}
	if err := env.SetMaxDBs(64); err != nil {
		return nil, err
	}
	if err := env.Open(dir, lmdb.NoReadahead, 0o664); err != nil {
		return nil, err
	}
	pre := int64(64 << 20)
	if mapSize < pre {
		pre = mapSize
	}
	if st, err := os.Stat(filepath.Join(dir, "data.mdb")); err == nil && st.Size() < pre {
		_ = os.Truncate(filepath.Join(dir, "data.mdb"), pre)
	}
	return env, nil
}

// Names lists all named DBIs.
func Names(txn *lmdb.Txn) ([]string, error) {
	root, err := txn.OpenRoot(0)
	if err != nil {
		return nil, err
	}
	c, err := txn.OpenCursor(root)
	if err != nil {
		return nil, err
	}
	defer c.Close()
	var names []string
	for f := uint(lmdb.First); ; f = lmdb.Next {
		k, _, err := c.Get(nil, nil, f)
		if lmdb.IsNotFound(err) {
			break
		}
		if err != nil {
			return nil, err
		}
		names = append(names, string(k))
	}
	return names, nil
}

// ReadDBI returns all pairs of a DBI in LMDB order (copies).
func ReadDBI(txn *lmdb.Txn, name string) (*DBIDump, error) {
	dbi, err := txn.OpenDBI(name, 0)
	if err != nil {
		return nil, err
	}
	fl, err := txn.Flags(dbi)
	if err != nil {
		return nil, err
	}
	d := &DBIDump{Flags: fl}
	c, err := txn.OpenCursor(dbi)
	if err != nil {
		return nil, err
	}
	defer c.Close()
	for f := uint(lmdb.First); ; f = lmdb.Next {
		k, v, err := c.Get(nil, nil, f)
		if lmdb.IsNotFound(err) {
			break
		}
		if err != nil {
			return nil, err
		}
		d.KVs = append(d.KVs, KV{append([]byte(nil), k...), append([]byte(nil), v...)})
	}
	return d, nil
}

// DumpTxn dumps every DBI inside a transaction.
func DumpTxn(txn *lmdb.Txn) (Dump, error) {
	names, err := Names(txn)
	if err != nil {
		return nil, err
	}
	out := Dump{}
	for _, n := range names {
		d, err := ReadDBI(txn, n)
		if err != nil {
			return nil, fmt.Errorf("dbi %s: %w", n, err)
		}
		out[n] = d
	}
	return out, nil
}

// DumpEnv dumps in a fresh read transaction and also returns its id.
func DumpEnv(env *lmdb.Env) (Dump, int64, error) {
	var out Dump
	var id int64
	err := env.View(func(txn *lmdb.Txn) error {
		txn.RawRead = false
		id = int64(txn.ID())
		var err error
		out, err = DumpTxn(txn)
		return err
	})
	return out, id, err
}

func LastTxnID(env *lmdb.Env) int64 {
	info, err := env.Info()
	if err != nil {
		return -1
	}
	return info.LastTxnID
}

// Diff describes the first differences between two dumps ("" if equal).
func Diff(a, b Dump) string {
	var names []string
	seen := map[string]bool{}
	for n := range a {
		names = append(names, n)
		seen[n] = true
	}
	for n := range b {
		if !seen[n] {
			names = append(names, n)
		}
	}
	sort.Strings(names)
	var out []string
	for _, n := range names {
		x, y := a[n], b[n]
		switch {
		case x == nil:
			out = append(out, fmt.Sprintf("dbi %q only in second (%d entries)", n, len(y.KVs)))
		case y == nil:
			out = append(out, fmt.Sprintf("dbi %q only in first (%d entries)", n, len(x.KVs)))
		default:
			if x.Flags != y.Flags {
				out = append(out, fmt.Sprintf("dbi %q flags %#x vs %#x", n, x.Flags, y.Flags))
			}
			if d := diffKVs(x.KVs, y.KVs); d != "" {
				out = append(out, fmt.Sprintf("dbi %q: %s", n, d))
			}
		}
		if len(out) >= 4 {
			break
		}
	}
	if len(out) == 0 {
		return ""
	}
	return fmt.Sprint(out)
}

func diffKVs(a, b []KV) string {
	i, j := 0, 0
	for i < len(a) || j < len(b) {
		switch {
		case i >= len(a):
			return fmt.Sprintf("extra in second: key %x val %x", trunc(b[j].K), trunc(b[j].V))
		case j >= len(b):
			return fmt.Sprintf("missing in second: key %x val %x", trunc(a[i].K), trunc(a[i].V))
		}
		if !bytes.Equal(a[i].K, b[j].K) {
			return fmt.Sprintf("position %d: key %x vs %x", i, trunc(a[i].K), trunc(b[j].K))
		}
		if !bytes.Equal(a[i].V, b[j].V) {
			return fmt.Sprintf("key %x: value %x vs %x", trunc(a[i].K), trunc(a[i].V), trunc(b[j].V))
		}
		i++
		j++
	}
	return ""
}

func trunc(b []byte) []byte {
	if len(b) > 48 {
		return b[:48]
	}
	return b
}

// Update runs a write transaction and returns its id.
func Update(env *lmdb.Env, f func(txn *lmdb.Txn) error) (int64, error) {
	var id int64
	err := env.Update(func(txn *lmdb.Txn) error {
		id = int64(txn.ID())
		return f(txn)
	})
	return id, err
}

// Put writes key=val into a named DBI (created with flags if missing).
func Put(txn *lmdb.Txn, dbiName string, createFlags uint, k, v []byte) error {
	dbi, err := txn.OpenDBI(dbiName, lmdb.Create|createFlags)
	if err != nil {
		return err
	}
	return txn.Put(dbi, k, v, 0)
}

// Del removes a key (all duplicates) from a named DBI; missing is fine.
func Del(txn *lmdb.Txn, dbiName string, k []byte) error {
	dbi, err := txn.OpenDBI(dbiName, 0)
	if err != nil {
		if lmdb.IsNotFound(err) {
			return nil
		}
		return err
	}
	err = txn.Del(dbi, k, nil)
	if lmdb.IsNotFound(err) {
		return nil
	}
	return err
}
