// Package bucket is an instrumented, scriptable in-memory simpleblob.Interface:
// every call and its result is an event in a log owned by the bucket's mutex,
// faults/latencies/gates are injected through a hook that runs in the caller's
// goroutine before the operation, and monitors can observe each successful
// mutation atomically with it.
package bucket

import (
	"context"
	"errors"
	"os"
	"sort"
	"strings"
	"sync"
	"sync/atomic"
	"time"

	"github.com/PowerDNS/simpleblob"
)

type Event struct {
	Seq    int
	Op     string // List Load Store Delete
	Name   string // blob name or list prefix
	Err    string
	Size   int
	Names  []string // List result
	T0, T1 int64    // monotonic ns since bucket creation (call, return)
	Tag    string   // caller tag (set through context value, optional)
}

// Decision of the hook.
type Decision struct {
	Err        error // fail the call with this error
	AfterWrite bool  // Store only: perform the write, then return Err
}

type Hook func(op, name string, nth int) Decision

type B struct {
	mu       sync.Mutex
	blobs    map[string][]byte
	log      []Event
	count    map[string]int
	t0       time.Time
	hook     atomic.Pointer[Hook]
	CtxAware bool

	inflightLoad    int32
	MaxInflightLoad int32

	// OnMutation is called under the bucket lock after every successful
	// Store/Delete with the event; monitors use it for online invariants.
	OnMutation func(b *B, ev Event)
	// OnEvent is called (outside the lock) after every call.
	OnEvent func(ev Event)
}

var ErrInjected = errors.New("injected storage fault")

func New() *B {
	return &B{blobs: map[string][]byte{}, count: map[string]int{}, t0: time.Now()}
}

func (b *B) SetHook(h Hook) {
	if h == nil {
		b.hook.Store(nil)
		return
	}
	b.hook.Store(&h)
}

func (b *B) now() int64 { return int64(time.Since(b.t0)) }

func (b *B) pre(ctx context.Context, op, name string) (Decision, int64) {
	t0 := b.now()
	b.mu.Lock()
	b.count[op]++
	nth := b.count[op]
	b.mu.Unlock()
	var d Decision
	if h := b.hook.Load(); h != nil {
		d = (*h)(op, name, nth)
	}
	if d.Err == nil && b.CtxAware && ctx.Err() != nil {
		d.Err = ctx.Err()
		d.AfterWrite = false
	}
	return d, t0
}

func (b *B) record(ev Event) Event {
	ev.T1 = b.now()
	b.mu.Lock()
	ev.Seq = len(b.log)
	b.log = append(b.log, ev)
	b.mu.Unlock()
	if b.OnEvent != nil {
		b.OnEvent(ev)
	}
	return ev
}

func errStr(err error) string {
	if err == nil {
		return ""
	}
	return err.Error()
}

func (b *B) List(ctx context.Context, prefix string) (simpleblob.BlobList, error) {
	d, t0 := b.pre(ctx, "List", prefix)
	if d.Err != nil {
		b.record(Event{Op: "List", Name: prefix, Err: errStr(d.Err), T0: t0})
		return nil, d.Err
	}
	var bl simpleblob.BlobList
	b.mu.Lock()
	for name, data := range b.blobs {
		if strings.HasPrefix(name, prefix) {
			bl = append(bl, simpleblob.Blob{Name: name, Size: int64(len(data))})
		}
	}
	b.mu.Unlock()
	bl.Sort()
	b.record(Event{Op: "List", Name: prefix, Names: bl.Names(), T0: t0})
	return bl, nil
}

func (b *B) Load(ctx context.Context, name string) ([]byte, error) {
	n := atomic.AddInt32(&b.inflightLoad, 1)
	for {
		m := atomic.LoadInt32(&b.MaxInflightLoad)
		if n <= m || atomic.CompareAndSwapInt32(&b.MaxInflightLoad, m, n) {
			break
		}
	}
	defer atomic.AddInt32(&b.inflightLoad, -1)
	d, t0 := b.pre(ctx, "Load", name)
	if d.Err != nil {
		b.record(Event{Op: "Load", Name: name, Err: errStr(d.Err), T0: t0})
		return nil, d.Err
	}
	b.mu.Lock()
	data, ok := b.blobs[name]
	b.mu.Unlock()
	if !ok {
		b.record(Event{Op: "Load", Name: name, Err: os.ErrNotExist.Error(), T0: t0})
		return nil, os.ErrNotExist
	}
	cp := append([]byte(nil), data...)
	b.record(Event{Op: "Load", Name: name, Size: len(cp), T0: t0})
	return cp, nil
}

func (b *B) Store(ctx context.Context, name string, data []byte) error {
	d, t0 := b.pre(ctx, "Store", name)
	if d.Err != nil && !d.AfterWrite {
		b.record(Event{Op: "Store", Name: name, Err: errStr(d.Err), Size: len(data), T0: t0})
		return d.Err
	}
	cp := append([]byte(nil), data...)
	b.mu.Lock()
	b.blobs[name] = cp
	ev := Event{Op: "Store", Name: name, Size: len(cp), T0: t0, Err: errStr(d.Err), Seq: len(b.log)}
	if b.OnMutation != nil {
		b.OnMutation(b, ev)
	}
	b.mu.Unlock()
	b.record(ev)
	return d.Err
}

func (b *B) Delete(ctx context.Context, name string) error {
	d, t0 := b.pre(ctx, "Delete", name)
	if d.Err != nil {
		b.record(Event{Op: "Delete", Name: name, Err: errStr(d.Err), T0: t0})
		return d.Err
	}
	b.mu.Lock()
	_, existed := b.blobs[name]
	delete(b.blobs, name)
	ev := Event{Op: "Delete", Name: name, T0: t0, Seq: len(b.log)}
	if existed && b.OnMutation != nil {
		b.OnMutation(b, ev)
	}
	b.mu.Unlock()
	b.record(ev)
	return nil
}

// ---- direct access for the harness (not logged)

func (b *B) Put(name string, data []byte) {
	b.mu.Lock()
	b.blobs[name] = append([]byte(nil), data...)
	b.mu.Unlock()
}

func (b *B) Remove(name string) {
	b.mu.Lock()
	delete(b.blobs, name)
	b.mu.Unlock()
}

func (b *B) Get(name string) ([]byte, bool) {
	b.mu.Lock()
	defer b.mu.Unlock()
	d, ok := b.blobs[name]
	return d, ok
}

// Names returns all names sorted. Safe to call from OnMutation (lock held) via NamesLocked.
func (b *B) Names() []string {
	b.mu.Lock()
	defer b.mu.Unlock()
	return b.NamesLocked()
}

func (b *B) NamesLocked() []string {
	var ns []string
	for n := range b.blobs {
		ns = append(ns, n)
	}
	sort.Strings(ns)
	return ns
}

func (b *B) GetLocked(name string) []byte { return b.blobs[name] }

func (b *B) Log() []Event {
	b.mu.Lock()
	defer b.mu.Unlock()
	return append([]Event(nil), b.log...)
}

func (b *B) Count(op string) int {
	b.mu.Lock()
	defer b.mu.Unlock()
	return b.count[op]
}

// SuccessfulCount returns the number of successful calls of op in the log.
func (b *B) SuccessfulCount(op string) int {
	b.mu.Lock()
	defer b.mu.Unlock()
	n := 0
	for _, e := range b.log {
		if e.Op == op && e.Err == "" {
			n++
		}
	}
	return n
}
