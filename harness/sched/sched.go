// Package sched dispatches the guarded yield points of the repository
// (utils/verifhook) to the harness: it records every yield as an event, lets a
// check arm an action at the n-th future occurrence of a point (commit an
// application transaction, cancel, "crash" with runtime.Goexit, delay), and
// detects quiescence of a running sync loop in logical steps.
package sched

import (
	"context"
	"fmt"
	"runtime"
	"sync"
	"time"

	"github.com/PowerDNS/lightningstream/utils/verifhook"

	"verif/inst"
)

type Event struct {
	Seq    int
	Inst   string
	Point  string
	Detail string
	T      int64 // ns since scheduler creation
	Note   string
}

type Arm struct {
	Inst    string
	Point   string
	Nth     int // n-th occurrence counted from the moment of arming (1 = next)
	Action  func(ev Event)
	seen    int
	Done    bool // the action has returned
	Fired   bool
	FiredAt Event
}

type Sched struct {
	mu     sync.Mutex
	t0     time.Time
	events []Event
	arms   []*Arm
	// Delay, if set, is called for every yield (race widening); runs outside the lock.
	Delay func(inst, point string)
}

func New() *Sched {
	s := &Sched{t0: time.Now()}
	verifhook.Set(s.handle)
	return s
}

func (s *Sched) Close() { verifhook.Set(nil) }

func (s *Sched) handle(in, point, detail string) {
	s.mu.Lock()
	ev := Event{Seq: len(s.events), Inst: in, Point: point, Detail: detail, T: int64(time.Since(s.t0))}
	s.events = append(s.events, ev)
	var fire *Arm
	for _, a := range s.arms {
		if a.Fired || a.Inst != in || a.Point != point {
			continue
		}
		a.seen++
		if a.seen == a.Nth {
			a.Fired = true
			a.FiredAt = ev
			fire = a
			break
		}
	}
	s.mu.Unlock()
	if fire != nil {
		if fire.Action != nil {
			// in the goroutine of the sync loop: it waits for us. An action that
			// ends the goroutine (Goexit) still marks the arm as done.
			func() {
				defer func() {
					s.mu.Lock()
					fire.Done = true
					s.mu.Unlock()
				}()
				fire.Action(ev)
			}()
		} else {
			s.mu.Lock()
			fire.Done = true
			s.mu.Unlock()
		}
	}
	if d := s.Delay; d != nil {
		d(in, point)
	}
}

// Note appends a harness event (application commit etc.) to the same log so
// that one order exists for everything.
func (s *Sched) Note(in, what string) Event {
	s.mu.Lock()
	defer s.mu.Unlock()
	ev := Event{Seq: len(s.events), Inst: in, Point: "harness", Note: what, T: int64(time.Since(s.t0))}
	s.events = append(s.events, ev)
	return ev
}

func (s *Sched) ArmAt(in, point string, nth int, action func(ev Event)) *Arm {
	a := &Arm{Inst: in, Point: point, Nth: nth, Action: action}
	s.mu.Lock()
	s.arms = append(s.arms, a)
	s.mu.Unlock()
	return a
}

// Fired reports that the arm's point was reached and its action has completed.
func (s *Sched) Fired(a *Arm) bool {
	s.mu.Lock()
	defer s.mu.Unlock()
	return a.Fired && a.Done
}

func (s *Sched) Events() []Event {
	s.mu.Lock()
	defer s.mu.Unlock()
	return append([]Event(nil), s.events...)
}

func (s *Sched) Len() int {
	s.mu.Lock()
	defer s.mu.Unlock()
	return len(s.events)
}

// Count of a point for an instance since event index from.
func (s *Sched) Count(in, point string, from int) int {
	s.mu.Lock()
	defer s.mu.Unlock()
	n := 0
	for _, e := range s.events[from:] {
		if e.Inst == in && e.Point == point {
			n++
		}
	}
	return n
}

// IdleIterations returns the number of complete trailing loop iterations of
// the instance (loop.top ... loop.end) in which no send.* / load.* yield
// happened, looking only at events from index from.
func (s *Sched) IdleIterations(in string, from int) int {
	s.mu.Lock()
	defer s.mu.Unlock()
	idle := 0
	inIter := false
	busy := false
	for _, e := range s.events[from:] {
		if e.Inst != in {
			continue
		}
		switch {
		case e.Point == "loop.top":
			inIter, busy = true, false
		case e.Point == "loop.end":
			if inIter && !busy {
				idle++
			} else {
				idle = 0
			}
			inIter = false
		case e.Point == "harness":
			idle = 0 // an application commit restarts the count
			busy = true
		case len(e.Point) > 5 && (e.Point[:5] == "send." || e.Point[:5] == "load."):
			busy = true
			idle = 0
		}
	}
	return idle
}

// Loaded reports whether load.done was seen for the blob name.
func (s *Sched) Loaded(in, blob string, from int) bool {
	s.mu.Lock()
	defer s.mu.Unlock()
	for _, e := range s.events[from:] {
		if e.Inst == in && e.Point == "load.done" && e.Detail == blob {
			return true
		}
	}
	return false
}

// Tail returns the last n events formatted.
func (s *Sched) Tail(n int) []string {
	evs := s.Events()
	if len(evs) > n {
		evs = evs[len(evs)-n:]
	}
	var out []string
	for _, e := range evs {
		if e.Point == "harness" {
			out = append(out, fmt.Sprintf("#%d %s: %s", e.Seq, e.Inst, e.Note))
		} else {
			out = append(out, fmt.Sprintf("#%d %s %s %s", e.Seq, e.Inst, e.Point, e.Detail))
		}
	}
	return out
}

// ---------------------------------------------------------------- a running Sync loop

type Loop struct {
	I       *inst.Inst
	S       *Sched
	ctx     context.Context
	Cancel  context.CancelFunc
	done    chan struct{}
	mu      sync.Mutex
	err     error
	crashed bool
	From    int // event index at which this incarnation started
}

// Start runs the real Sync of the instance in its own goroutine.
func Start(i *inst.Inst, s *Sched) *Loop {
	ctx, cancel := context.WithCancel(context.Background())
	l := &Loop{I: i, S: s, ctx: ctx, Cancel: cancel, done: make(chan struct{}), From: s.Len()}
	go func() {
		returned := false
		defer func() {
			if !returned {
				l.mu.Lock()
				l.crashed = true // Goexit from a yield callback: emulated process death
				l.mu.Unlock()
			}
			close(l.done)
		}()
		err := i.S.Sync(ctx)
		l.mu.Lock()
		l.err = err
		l.mu.Unlock()
		returned = true
	}()
	return l
}

// Crash is an arm action: the loop goroutine ends at this very yield point.
func Crash(ev Event) { runtime.Goexit() }

func (l *Loop) Done() <-chan struct{} { return l.done }

func (l *Loop) Result() (err error, crashed, finished bool) {
	select {
	case <-l.done:
		l.mu.Lock()
		defer l.mu.Unlock()
		return l.err, l.crashed, true
	default:
		return nil, false, false
	}
}

// Stop cancels and waits for Sync to return.
func (l *Loop) Stop(timeout time.Duration) bool {
	l.Cancel()
	select {
	case <-l.done:
		return true
	case <-time.After(timeout):
		return false
	}
}

// WaitQuiescent waits until every staged blob was reported by load.done and
// then `idle` further complete loop iterations passed without any send/load
// activity. It returns false on timeout (inconclusive) or when the loop ended.
func (l *Loop) WaitQuiescent(staged []string, idle int, timeout time.Duration) (ok bool, why string) {
	deadline := time.Now().Add(timeout)
	for time.Now().Before(deadline) {
		select {
		case <-l.done:
			return false, "sync loop ended"
		default:
		}
		all := true
		for _, b := range staged {
			if !l.S.Loaded(l.I.Name, b, l.From) {
				all = false
			}
		}
		if all && l.S.IdleIterations(l.I.Name, l.From) >= idle {
			return true, ""
		}
		time.Sleep(300 * time.Microsecond)
	}
	return false, "watchdog"
}
