// Package wire is an independent implementation of the protobuf wire format
// plus the schema of snapshot/gogosnapshot/snapshot.proto. It shares no code
// with the repository or with csproto/gogo: it is the reference the monitors
// decode uploaded blobs with and build (re-)encodings from.
package wire

import (
	"bytes"
	"compress/gzip"
	"encoding/binary"
	"errors"
	"fmt"
	"io"
)

// Wire types
const (
	WTVarint  = 0
	WTFixed64 = 1
	WTBytes   = 2
	WTSGroup  = 3
	WTEGroup  = 4
	WTFixed32 = 5
)

// Field is one field occurrence in a message.
type Field struct {
	Num uint64
	WT  int
	V   uint64 // varint / fixed value
	B   []byte // length-delimited payload (when Sub == nil)
	Sub *Msg   // length-delimited payload that is a known embedded message
	// Raw, when non-nil, replaces the whole encoding of this field (hostile inputs)
	Raw []byte
	// encoding liberties
	LenPad int // extra bytes for a non-minimal length varint
	TagPad int // extra bytes for a non-minimal tag varint
}

// Msg is an ordered list of field occurrences.
type Msg struct{ F []Field }

// AppendVarint appends v using at least 1+pad bytes (non-minimal when pad>0).
func AppendVarint(b []byte, v uint64, pad int) []byte {
	n := 0
	for v >= 0x80 {
		b = append(b, byte(v)|0x80)
		v >>= 7
		n++
	}
	if pad == 0 {
		return append(b, byte(v))
	}
	b = append(b, byte(v)|0x80)
	n++
	for i := 1; i < pad && n < 9; i++ {
		b = append(b, 0x80)
		n++
	}
	return append(b, 0x00)
}

// ReadVarint reads a varint strictly: at most 10 bytes, the 10th at most 1.
func ReadVarint(b []byte) (uint64, int, error) {
	var v uint64
	for i := 0; i < len(b); i++ {
		if i == 10 {
			return 0, 0, errors.New("varint longer than 10 bytes")
		}
		c := b[i]
		if i == 9 && c > 1 {
			return 0, 0, errors.New("varint overflows 64 bits")
		}
		v |= uint64(c&0x7f) << (7 * uint(i))
		if c < 0x80 {
			return v, i + 1, nil
		}
	}
	return 0, 0, io.ErrUnexpectedEOF
}

// Encode serialises a message tree.
func (m *Msg) Encode() []byte {
	var b []byte
	for _, f := range m.F {
		if f.Raw != nil {
			b = append(b, f.Raw...)
			continue
		}
		b = AppendVarint(b, f.Num<<3|uint64(f.WT), f.TagPad)
		switch f.WT {
		case WTVarint:
			b = AppendVarint(b, f.V, 0)
		case WTFixed64:
			b = binary.LittleEndian.AppendUint64(b, f.V)
		case WTFixed32:
			b = binary.LittleEndian.AppendUint32(b, uint32(f.V))
		case WTBytes:
			p := f.B
			if f.Sub != nil {
				p = f.Sub.Encode()
			}
			b = AppendVarint(b, uint64(len(p)), f.LenPad)
			b = append(b, p...)
		default:
			// groups are never generated
		}
	}
	return b
}

// Parse parses one message level strictly (no schema).
func Parse(b []byte) (*Msg, error) {
	m := &Msg{}
	for len(b) > 0 {
		tag, n, err := ReadVarint(b)
		if err != nil {
			return nil, fmt.Errorf("tag: %w", err)
		}
		b = b[n:]
		f := Field{Num: tag >> 3, WT: int(tag & 7)}
		if f.Num == 0 {
			return nil, errors.New("field number 0")
		}
		if f.Num > 1<<29-1 {
			return nil, errors.New("field number too large")
		}
		switch f.WT {
		case WTVarint:
			v, n, err := ReadVarint(b)
			if err != nil {
				return nil, fmt.Errorf("varint value: %w", err)
			}
			f.V = v
			b = b[n:]
		case WTFixed64:
			if len(b) < 8 {
				return nil, io.ErrUnexpectedEOF
			}
			f.V = binary.LittleEndian.Uint64(b)
			b = b[8:]
		case WTFixed32:
			if len(b) < 4 {
				return nil, io.ErrUnexpectedEOF
			}
			f.V = uint64(binary.LittleEndian.Uint32(b))
			b = b[4:]
		case WTBytes:
			l, n, err := ReadVarint(b)
			if err != nil {
				return nil, fmt.Errorf("length: %w", err)
			}
			b = b[n:]
			if l > uint64(len(b)) {
				return nil, io.ErrUnexpectedEOF
			}
			f.B = b[:l:l]
			b = b[l:]
		default:
			return nil, fmt.Errorf("wire type %d", f.WT)
		}
		m.F = append(m.F, f)
	}
	return m, nil
}

// ---------------------------------------------------------------- schema

type KV struct {
	Key   []byte
	Val   []byte
	TS    uint64
	Flags uint32
}

type DBI struct {
	Name      string
	Flags     uint64
	Transform string
	Entries   []KV
}

type Meta struct {
	GenerationID  string
	InstanceID    string
	Hostname      string
	LmdbTxnID     int64
	TimestampNano uint64
	DatabaseName  string
	FromLmdbTxnID int64
}

type Snap struct {
	FormatVersion uint32
	CompatVersion uint32
	Meta          Meta
	DBIs          []DBI
}

type ErrWireType struct {
	Msg  string
	Num  uint64
	WT   int
	Want int
}

func (e ErrWireType) Error() string {
	return fmt.Sprintf("%s field %d: wire type %d, want %d", e.Msg, e.Num, e.WT, e.Want)
}

func want(msg string, f Field, wt int) error {
	if f.WT != wt {
		return ErrWireType{msg, f.Num, f.WT, wt}
	}
	return nil
}

// DecodeSnapshot decodes protobuf bytes with proto3 semantics: unknown fields
// skipped, last scalar wins, repeated fields appended, a repeated embedded
// singular message (Meta) merged.
func DecodeSnapshot(pb []byte) (*Snap, error) {
	top, err := Parse(pb)
	if err != nil {
		return nil, fmt.Errorf("snapshot: %w", err)
	}
	s := &Snap{}
	for _, f := range top.F {
		switch f.Num {
		case 1:
			if err := want("Snapshot", f, WTVarint); err != nil {
				return nil, err
			}
			s.FormatVersion = uint32(f.V)
		case 4:
			if err := want("Snapshot", f, WTVarint); err != nil {
				return nil, err
			}
			s.CompatVersion = uint32(f.V)
		case 2:
			if err := want("Snapshot", f, WTBytes); err != nil {
				return nil, err
			}
			if err := decodeMeta(f.B, &s.Meta); err != nil {
				return nil, err
			}
		case 3:
			if err := want("Snapshot", f, WTBytes); err != nil {
				return nil, err
			}
			d, err := DecodeDBI(f.B)
			if err != nil {
				return nil, err
			}
			s.DBIs = append(s.DBIs, *d)
		}
	}
	return s, nil
}

func decodeMeta(b []byte, m *Meta) error {
	mm, err := Parse(b)
	if err != nil {
		return fmt.Errorf("meta: %w", err)
	}
	for _, f := range mm.F {
		switch f.Num {
		case 1, 2, 3, 7:
			if err := want("Meta", f, WTBytes); err != nil {
				return err
			}
			s := string(f.B)
			switch f.Num {
			case 1:
				m.GenerationID = s
			case 2:
				m.InstanceID = s
			case 3:
				m.Hostname = s
			case 7:
				m.DatabaseName = s
			}
		case 4:
			if err := want("Meta", f, WTVarint); err != nil {
				return err
			}
			m.LmdbTxnID = int64(f.V)
		case 8:
			if err := want("Meta", f, WTVarint); err != nil {
				return err
			}
			m.FromLmdbTxnID = int64(f.V)
		case 5:
			if err := want("Meta", f, WTFixed64); err != nil {
				return err
			}
			m.TimestampNano = f.V
		}
	}
	return nil
}

// DecodeDBI decodes one DBI message.
func DecodeDBI(b []byte) (*DBI, error) {
	dm, err := Parse(b)
	if err != nil {
		return nil, fmt.Errorf("dbi: %w", err)
	}
	d := &DBI{}
	for _, f := range dm.F {
		switch f.Num {
		case 1:
			if err := want("DBI", f, WTBytes); err != nil {
				return nil, err
			}
			d.Name = string(f.B)
		case 4:
			if err := want("DBI", f, WTBytes); err != nil {
				return nil, err
			}
			d.Transform = string(f.B)
		case 3:
			if err := want("DBI", f, WTVarint); err != nil {
				return nil, err
			}
			d.Flags = f.V
		case 2:
			if err := want("DBI", f, WTBytes); err != nil {
				return nil, err
			}
			kv, err := decodeKV(f.B)
			if err != nil {
				return nil, err
			}
			d.Entries = append(d.Entries, kv)
		}
	}
	return d, nil
}

func decodeKV(b []byte) (KV, error) {
	var kv KV
	km, err := Parse(b)
	if err != nil {
		return kv, fmt.Errorf("kv: %w", err)
	}
	for _, f := range km.F {
		switch f.Num {
		case 1:
			if err := want("KV", f, WTBytes); err != nil {
				return kv, err
			}
			kv.Key = f.B
		case 2:
			if err := want("KV", f, WTBytes); err != nil {
				return kv, err
			}
			kv.Val = f.B
		case 3:
			if err := want("KV", f, WTFixed64); err != nil {
				return kv, err
			}
			kv.TS = f.V
		case 4:
			if err := want("KV", f, WTVarint); err != nil {
				return kv, err
			}
			kv.Flags = uint32(f.V)
		}
	}
	return kv, nil
}

// Tree builds the canonical message tree of a snapshot the way a standard
// proto3 encoder would: fields in number order, defaults omitted.
func Tree(s *Snap) *Msg {
	top := &Msg{}
	if s.FormatVersion != 0 {
		top.F = append(top.F, Field{Num: 1, WT: WTVarint, V: uint64(s.FormatVersion)})
	}
	mm := MetaTree(&s.Meta)
	top.F = append(top.F, Field{Num: 2, WT: WTBytes, Sub: mm})
	for i := range s.DBIs {
		top.F = append(top.F, Field{Num: 3, WT: WTBytes, Sub: DBITree(&s.DBIs[i])})
	}
	if s.CompatVersion != 0 {
		top.F = append(top.F, Field{Num: 4, WT: WTVarint, V: uint64(s.CompatVersion)})
	}
	return top
}

func MetaTree(m *Meta) *Msg {
	mm := &Msg{}
	str := func(n uint64, s string) {
		if s != "" {
			mm.F = append(mm.F, Field{Num: n, WT: WTBytes, B: []byte(s)})
		}
	}
	str(1, m.GenerationID)
	str(2, m.InstanceID)
	str(3, m.Hostname)
	if m.LmdbTxnID != 0 {
		mm.F = append(mm.F, Field{Num: 4, WT: WTVarint, V: uint64(m.LmdbTxnID)})
	}
	if m.TimestampNano != 0 {
		mm.F = append(mm.F, Field{Num: 5, WT: WTFixed64, V: m.TimestampNano})
	}
	str(7, m.DatabaseName)
	if m.FromLmdbTxnID != 0 {
		mm.F = append(mm.F, Field{Num: 8, WT: WTVarint, V: uint64(m.FromLmdbTxnID)})
	}
	return mm
}

func DBITree(d *DBI) *Msg {
	dm := &Msg{}
	if d.Name != "" {
		dm.F = append(dm.F, Field{Num: 1, WT: WTBytes, B: []byte(d.Name)})
	}
	for i := range d.Entries {
		dm.F = append(dm.F, Field{Num: 2, WT: WTBytes, Sub: KVTree(&d.Entries[i])})
	}
	if d.Flags != 0 {
		dm.F = append(dm.F, Field{Num: 3, WT: WTVarint, V: d.Flags})
	}
	if d.Transform != "" {
		dm.F = append(dm.F, Field{Num: 4, WT: WTBytes, B: []byte(d.Transform)})
	}
	return dm
}

func KVTree(kv *KV) *Msg {
	km := &Msg{}
	if len(kv.Key) > 0 {
		km.F = append(km.F, Field{Num: 1, WT: WTBytes, B: kv.Key})
	}
	if len(kv.Val) > 0 {
		km.F = append(km.F, Field{Num: 2, WT: WTBytes, B: kv.Val})
	}
	if kv.TS != 0 {
		km.F = append(km.F, Field{Num: 3, WT: WTFixed64, V: kv.TS})
	}
	if kv.Flags != 0 {
		km.F = append(km.F, Field{Num: 4, WT: WTVarint, V: uint64(kv.Flags)})
	}
	return km
}

// EncodeSnapshot is the canonical encoding.
func EncodeSnapshot(s *Snap) []byte { return Tree(s).Encode() }

// Equal compares two decoded snapshots by content (nil and empty slices equal).
func Equal(a, b *Snap) error {
	if a.FormatVersion != b.FormatVersion || a.CompatVersion != b.CompatVersion {
		return fmt.Errorf("versions differ: %d/%d vs %d/%d", a.FormatVersion, a.CompatVersion, b.FormatVersion, b.CompatVersion)
	}
	if a.Meta != b.Meta {
		return fmt.Errorf("meta differs: %+v vs %+v", a.Meta, b.Meta)
	}
	if len(a.DBIs) != len(b.DBIs) {
		return fmt.Errorf("number of DBIs differs: %d vs %d", len(a.DBIs), len(b.DBIs))
	}
	for i := range a.DBIs {
		if err := EqualDBI(&a.DBIs[i], &b.DBIs[i]); err != nil {
			return fmt.Errorf("dbi #%d: %w", i, err)
		}
	}
	return nil
}

func EqualDBI(x, y *DBI) error {
	if x.Name != y.Name || x.Flags != y.Flags || x.Transform != y.Transform {
		return fmt.Errorf("top-level fields differ: (%q,%d,%q) vs (%q,%d,%q)", trunc(x.Name), x.Flags, trunc(x.Transform), trunc(y.Name), y.Flags, trunc(y.Transform))
	}
	if len(x.Entries) != len(y.Entries) {
		return fmt.Errorf("entry count differs: %d vs %d", len(x.Entries), len(y.Entries))
	}
	for j := range x.Entries {
		p, q := x.Entries[j], y.Entries[j]
		if !bytes.Equal(p.Key, q.Key) || !bytes.Equal(p.Val, q.Val) || p.TS != q.TS || p.Flags != q.Flags {
			return fmt.Errorf("entry #%d differs: key %x/%x vallen %d/%d ts %d/%d flags %d/%d", j, trunc(string(p.Key)), trunc(string(q.Key)), len(p.Val), len(q.Val), p.TS, q.TS, p.Flags, q.Flags)
		}
	}
	return nil
}

func trunc(s string) string {
	if len(s) > 24 {
		return s[:24] + "..."
	}
	return s
}

// ---------------------------------------------------------------- gzip

func Gzip(pb []byte) []byte {
	var buf bytes.Buffer
	w, _ := gzip.NewWriterLevel(&buf, gzip.BestSpeed)
	w.Write(pb)
	w.Close()
	return buf.Bytes()
}

// Gunzip decompresses with the standard library (the repository uses klauspost).
func Gunzip(blob []byte, limit int64) ([]byte, error) {
	r, err := gzip.NewReader(bytes.NewReader(blob))
	if err != nil {
		return nil, err
	}
	var buf bytes.Buffer
	if limit <= 0 {
		limit = 1 << 40
	}
	n, err := io.Copy(&buf, io.LimitReader(r, limit+1))
	if err != nil {
		return nil, err
	}
	if n > limit {
		return nil, errors.New("gunzip: over limit")
	}
	if err := r.Close(); err != nil {
		return nil, err
	}
	return buf.Bytes(), nil
}

// DecodeBlob = gunzip + DecodeSnapshot.
func DecodeBlob(blob []byte) (*Snap, error) {
	pb, err := Gunzip(blob, 0)
	if err != nil {
		return nil, err
	}
	return DecodeSnapshot(pb)
}
