// Package hdr is an independent reader/writer of the 24+ byte Lightning Stream
// value header, written from docs/schema-native.md, not from the code:
//
//	0..7   timestamp, big-endian uint64 nanoseconds
//	8..15  transaction id, big-endian uint64
//	16     version (0)
//	17     flags (bit 0 = deleted)
//	18..21 reserved (0)
//	22..23 number of 8-byte extension blocks, big-endian uint16
//	24..   extension blocks, then the application value
package hdr

import (
	"encoding/binary"
	"errors"
	"fmt"
)

const Min = 24

type H struct {
	TS       uint64
	TxnID    uint64
	Version  uint8
	Flags    uint8
	Reserved [4]byte
	NumExtra int
	Extra    []byte
}

func (h H) Deleted() bool { return h.Flags&1 != 0 }

var ErrShort = errors.New("hdr: too short")
var ErrVersion = errors.New("hdr: version")

// Read parses a stored value. It accepts exactly what the documentation says
// is a version-0 header.
func Read(v []byte) (H, []byte, error) {
	var h H
	if len(v) < Min {
		return h, nil, ErrShort
	}
	h.TS = binary.BigEndian.Uint64(v[0:8])
	h.TxnID = binary.BigEndian.Uint64(v[8:16])
	h.Version = v[16]
	h.Flags = v[17]
	copy(h.Reserved[:], v[18:22])
	h.NumExtra = int(v[22])<<8 | int(v[23])
	if h.Version != 0 {
		return h, nil, ErrVersion
	}
	end := Min + 8*h.NumExtra
	if len(v) < end {
		return h, nil, ErrShort
	}
	h.Extra = v[Min:end]
	return h, v[end:], nil
}

// Make builds a stored value with n all-zero-or-given extension blocks.
func Make(ts, txn uint64, flags uint8, extra []byte, app []byte) []byte {
	if len(extra)%8 != 0 {
		panic("extra not multiple of 8")
	}
	n := len(extra) / 8
	b := make([]byte, Min, Min+len(extra)+len(app))
	binary.BigEndian.PutUint64(b[0:8], ts)
	binary.BigEndian.PutUint64(b[8:16], txn)
	b[17] = flags
	b[22] = byte(n >> 8)
	b[23] = byte(n)
	b = append(b, extra...)
	b = append(b, app...)
	return b
}

// WellFormedLS checks everything C14 demands of a value written by Lightning
// Stream itself. txn==0 skips the transaction id comparison.
func WellFormedLS(v []byte, txn uint64) (H, []byte, error) {
	h, app, err := Read(v)
	if err != nil {
		return h, nil, err
	}
	if h.Flags&^1 != 0 {
		return h, app, fmt.Errorf("flags 0x%02x outside the synced set", h.Flags)
	}
	if h.Reserved != [4]byte{} {
		return h, app, fmt.Errorf("reserved bytes not zero: %x", h.Reserved)
	}
	if txn != 0 && h.TxnID != txn {
		return h, app, fmt.Errorf("txn id field %d, written by LS transaction %d", h.TxnID, txn)
	}
	if h.Deleted() && len(app) != 0 {
		return h, app, fmt.Errorf("deleted entry with non-empty value (%d bytes)", len(app))
	}
	return h, app, nil
}
