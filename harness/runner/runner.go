// Package runner is the shared driver of all checks: it turns a property
// definition (case generator + per-case monitor) into a parent process that
// fans cases out to child processes, collects three-valued verdicts, matches
// violations against the committed known-findings file, writes the evidence
// file and replay files, and sets the exit status.
package runner

import (
	"bufio"
	"bytes"
	"crypto/sha256"
	"encoding/hex"
	"encoding/json"
	"flag"
	"fmt"
	"os"
	"os/exec"
	"path/filepath"
	"runtime"
	"runtime/debug"
	"sort"
	"strings"
	"sync"
	"syscall"
	"time"
)

const (
	Held         = "held"
	Violated     = "violated"
	Inconclusive = "inconclusive"
)

// Case is one generated execution. P is opaque to the runner.
type Case struct {
	ID     string          `json:"id"`
	Family string          `json:"family"`
	P      json.RawMessage `json:"p"`
}

// Result is what the monitor(s) of one case report.
type Result struct {
	CaseID     string              `json:"case_id"`
	Family     string              `json:"family,omitempty"`
	Verdict    string              `json:"verdict"`
	NonTrivial bool                `json:"nontrivial"`
	Key        string              `json:"key,omitempty"` // distinctness key, default: case id
	Sig        string              `json:"sig,omitempty"` // violation signature (known-findings matching)
	Msg        string              `json:"msg,omitempty"`
	Obs        map[string]int64    `json:"obs,omitempty"`  // counters, summed
	Sets       map[string][]string `json:"sets,omitempty"` // string sets, unioned (distinct things observed)
	Sample     any                 `json:"sample,omitempty"`
	Witness    any                 `json:"witness,omitempty"`
	// More are additional violations found in the same case (each with own sig)
	More []Finding `json:"more,omitempty"`
	// ExitAfter asks the child process to end after this result was recorded (the case left a goroutine
	// behind that cannot be stopped, e.g. one spinning in a non-terminating decoder); the parent runs the rest
	// of the batch in a fresh process
	ExitAfter bool `json:"exit_after,omitempty"`
}

type Finding struct {
	Sig     string `json:"sig"`
	Msg     string `json:"msg"`
	Witness any    `json:"witness,omitempty"`
}

func (r *Result) Count(k string, n int64) {
	if r.Obs == nil {
		r.Obs = map[string]int64{}
	}
	r.Obs[k] += n
}

func (r *Result) Add(set, v string) {
	if r.Sets == nil {
		r.Sets = map[string][]string{}
	}
	for _, x := range r.Sets[set] {
		if x == v {
			return
		}
	}
	r.Sets[set] = append(r.Sets[set], v)
}

// Violate records a violation; the first one sets the verdict fields, later
// ones (other signatures) are kept in More.
func (r *Result) Violate(sig, msg string, witness any) {
	if r.Verdict != Violated {
		r.Verdict = Violated
		r.Sig, r.Msg, r.Witness = sig, msg, witness
		return
	}
	if sig == r.Sig {
		return
	}
	for _, m := range r.More {
		if m.Sig == sig {
			return
		}
	}
	r.More = append(r.More, Finding{sig, msg, witness})
}

// Property describes one check.
type Property struct {
	ID          string
	Level       string // evidence level
	Rule        string
	Assumptions []string
	// Cases returns the full deterministic case list of (tier, seed).
	Cases func(tier string, seed int64) []Case
	// Run executes one case in a child process.
	Run func(c Case, env *Env) Result
	// BatchSize is the number of cases per child process (default 50).
	BatchSize int
	// Parallel is the number of children running at once (default NumCPU).
	Parallel int
	// CaseTimeout is the wall-clock watchdog per case (default 60s).
	CaseTimeout time.Duration
	// HangIsViolation: a case that exceeds the watchdog, re-run alone with
	// HangConfirm as its watchdog and still running, is a violation with
	// signature "hang" instead of inconclusive.
	HangIsViolation bool
	HangConfirm     time.Duration
	// MinConclusiveFrac is the fraction of cases that must be conclusive.
	MinConclusiveFrac float64
	// MinNonTrivial is the minimum of distinct non-trivial cases per tier.
	MinNonTrivial func(tier string) int
	// PostProcess may add findings from side channels (e.g. race logs).
	PostProcess func(a *Aggregate, scratch string)
	// ChildEnv are extra environment variables for child processes
	// ("{SCRATCH}" is replaced by the run's scratch directory).
	ChildEnv []string
	// MaxSamples in the evidence file (default 5).
	MaxSamples int
}

// Env is handed to Run.
type Env struct {
	Scratch string // per-child scratch directory (removed by the child at exit)
	Tier    string
	Seed    int64
	Replay  bool
}

// Dir returns a fresh sub-directory of the scratch space.
func (e *Env) Dir(name string) string {
	d := filepath.Join(e.Scratch, fmt.Sprintf("%s-%d", name, dirCounter.next()))
	_ = os.MkdirAll(d, 0o775)
	return d
}

type counter struct {
	mu sync.Mutex
	n  int
}

func (c *counter) next() int { c.mu.Lock(); defer c.mu.Unlock(); c.n++; return c.n }

var dirCounter counter

// Aggregate is the merged outcome of a run.
type Aggregate struct {
	Evaluations  int
	Conclusive   int
	Inconclusive int
	NonTrivial   map[string]bool
	Obs          map[string]int64
	Sets         map[string]map[string]bool
	Samples      []any
	Violations   []Violation
	Families     map[string]int
	InconcMsgs   []string
}

type Violation struct {
	Case    Case
	Sig     string
	Msg     string
	Witness any
}

func verifRoot() string {
	if r := os.Getenv("VERIF_ROOT"); r != "" {
		return r
	}
	return "/verif"
}

// Main is the entry point of every worker binary.
func Main(props ...*Property) {
	var (
		propID  = flag.String("prop", "", "property id")
		tier    = flag.String("tier", "quick", "quick|thorough")
		seed    = flag.Int64("seed", 1, "seed")
		child   = flag.Bool("child", false, "internal: child mode")
		batch   = flag.String("batch", "", "internal: batch file")
		out     = flag.String("out", "", "internal: result file")
		replay  = flag.String("replay", "", "replay file")
		cto     = flag.Duration("case-timeout", 0, "internal: override case watchdog")
		only    = flag.String("only", "", "run only cases whose id contains this substring (debug; writes no evidence)")
		listOnl = flag.Bool("list", false, "list cases and exit")
	)
	flag.Parse()
	if t := os.Getenv("VERIF_TIER"); t != "" && !flagSet("tier") {
		*tier = t
	}
	if s := os.Getenv("VERIF_SEED"); s != "" && !flagSet("seed") {
		fmt.Sscan(s, seed)
	}
	var p *Property
	for _, q := range props {
		if q.ID == *propID {
			p = q
		}
	}
	if p == nil {
		fmt.Fprintf(os.Stderr, "unknown property %q\n", *propID)
		os.Exit(2)
	}
	p.defaults()
	if *cto > 0 {
		p.CaseTimeout = *cto
	}
	if *child {
		os.Exit(childMain(p, *tier, *seed, *batch, *out))
	}
	if *replay != "" {
		os.Exit(replayMain(p, *tier, *seed, *replay))
	}
	if *listOnl {
		for _, c := range p.Cases(*tier, *seed) {
			fmt.Printf("%s\t%s\t%s\n", c.ID, c.Family, string(c.P))
		}
		return
	}
	os.Exit(parentMain(p, *tier, *seed, *only))
}

func flagSet(name string) bool {
	set := false
	flag.Visit(func(f *flag.Flag) {
		if f.Name == name {
			set = true
		}
	})
	return set
}

func (p *Property) defaults() {
	if p.BatchSize <= 0 {
		p.BatchSize = 50
	}
	if p.Parallel <= 0 {
		p.Parallel = runtime.NumCPU()
	}
	if p.CaseTimeout <= 0 {
		p.CaseTimeout = 60 * time.Second
	}
	if p.HangConfirm <= 0 {
		p.HangConfirm = 120 * time.Second
	}
	if p.MinConclusiveFrac == 0 {
		p.MinConclusiveFrac = 0.9
	}
	if p.MaxSamples == 0 {
		p.MaxSamples = 5
	}
}

func scratchBase() string {
	// a child works below its parent's scratch directory, so that the parent's clean-up also covers children that
	// died without running theirs (race-detector exits, fatal errors, kills)
	if d := os.Getenv("VERIF_SCRATCH_PARENT"); d != "" {
		if st, err := os.Stat(d); err == nil && st.IsDir() {
			return d
		}
	}
	for _, d := range []string{"/dev/shm", os.Getenv("TMPDIR"), os.TempDir()} {
		if d == "" {
			continue
		}
		if st, err := os.Stat(d); err == nil && st.IsDir() {
			return d
		}
	}
	return "."
}

// ---------------------------------------------------------------- child

type outLine struct {
	Open    string  `json:"open,omitempty"`
	Timeout string  `json:"timeout,omitempty"`
	Result  *Result `json:"result,omitempty"`
}

func childMain(p *Property, tier string, seed int64, batchFile, outFile string) int {
	data, err := os.ReadFile(batchFile)
	if err != nil {
		fmt.Fprintln(os.Stderr, err)
		return 2
	}
	var cases []Case
	if err := json.Unmarshal(data, &cases); err != nil {
		fmt.Fprintln(os.Stderr, err)
		return 2
	}
	of, err := os.OpenFile(outFile, os.O_CREATE|os.O_WRONLY|os.O_APPEND, 0o664)
	if err != nil {
		fmt.Fprintln(os.Stderr, err)
		return 2
	}
	defer of.Close()
	var omu sync.Mutex
	write := func(l outLine) {
		b, err := json.Marshal(l)
		if err != nil {
			b, _ = json.Marshal(outLine{Result: &Result{CaseID: l.caseID(), Verdict: Inconclusive, Msg: "result not serialisable: " + err.Error()}})
		}
		omu.Lock()
		of.Write(append(b, '\n'))
		of.Sync()
		omu.Unlock()
	}
	scratch, err := os.MkdirTemp(scratchBase(), "verif-"+p.ID+"-")
	if err != nil {
		fmt.Fprintln(os.Stderr, err)
		return 2
	}
	defer os.RemoveAll(scratch)
	env := &Env{Scratch: scratch, Tier: tier, Seed: seed}
	for _, c := range cases {
		write(outLine{Open: c.ID})
		done := make(chan Result, 1)
		go func() {
			done <- runGuarded(p, c, env)
		}()
		select {
		case r := <-done:
			write(outLine{Result: &r})
			if r.ExitAfter {
				os.RemoveAll(scratch)
				return 4
			}
		case <-time.After(p.CaseTimeout):
			write(outLine{Timeout: c.ID})
			// dump goroutines for the log, then give up on this process
			buf := make([]byte, 1<<20)
			n := runtime.Stack(buf, true)
			fmt.Fprintf(os.Stderr, "WATCHDOG case %s exceeded %v\n%s\n", c.ID, p.CaseTimeout, buf[:n])
			os.RemoveAll(scratch)
			return 3
		}
	}
	return 0
}

func (l outLine) caseID() string {
	if l.Result != nil {
		return l.Result.CaseID
	}
	return l.Open + l.Timeout
}

// runGuarded runs one case and converts a panic into a violation.
func runGuarded(p *Property, c Case, env *Env) (r Result) {
	defer func() {
		if e := recover(); e != nil {
			st := string(debug.Stack())
			r = Result{CaseID: c.ID, Family: c.Family, Verdict: Violated,
				Sig: "panic:" + PanicSite(st), Msg: fmt.Sprintf("panic: %v", e), Witness: map[string]any{"stack": st}}
		}
	}()
	r = p.Run(c, env)
	r.CaseID = c.ID
	r.Family = c.Family
	if r.Verdict == "" {
		r.Verdict = Held
	}
	return r
}

// PanicSite returns the first lightningstream (repository) frame of a stack
// trace, without line number, or the first harness frame if there is none.
func PanicSite(stack string) string {
	lines := strings.Split(stack, "\n")
	first := ""
	for _, l := range lines {
		l = strings.TrimSpace(l)
		if strings.HasPrefix(l, "github.com/PowerDNS/lightningstream/") {
			f := strings.TrimPrefix(l, "github.com/PowerDNS/lightningstream/")
			if i := strings.Index(f, "("); i > 0 {
				// keep method receivers like (*DBI).Next
				if j := strings.LastIndex(f, "("); j > 0 && !strings.HasPrefix(f[j:], "(*") {
					f = f[:j]
				}
			}
			return f
		}
		if first == "" && strings.HasPrefix(l, "verif/") {
			first = l
		}
	}
	if first != "" {
		return "harness:" + first
	}
	return "unknown"
}

// ---------------------------------------------------------------- parent

type batchJob struct {
	idx   int
	cases []Case
}

func parentMain(p *Property, tier string, seed int64, only string) int {
	t0 := time.Now()
	cases := p.Cases(tier, seed)
	if only != "" {
		var f []Case
		for _, c := range cases {
			if strings.Contains(c.ID, only) {
				f = append(f, c)
			}
		}
		cases = f
	}
	seen := map[string]bool{}
	for _, c := range cases {
		if seen[c.ID] {
			fmt.Fprintf(os.Stderr, "duplicate case id %s\n", c.ID)
			return 2
		}
		seen[c.ID] = true
	}
	scratch, err := os.MkdirTemp(scratchBase(), "verifp-"+p.ID+"-")
	if err != nil {
		fmt.Fprintln(os.Stderr, err)
		return 2
	}
	defer os.RemoveAll(scratch)

	byID := map[string]Case{}
	for _, c := range cases {
		byID[c.ID] = c
	}
	var jobs []batchJob
	for i := 0; i < len(cases); i += p.BatchSize {
		j := i + p.BatchSize
		if j > len(cases) {
			j = len(cases)
		}
		jobs = append(jobs, batchJob{len(jobs), cases[i:j]})
	}
	results := map[string]Result{}
	var rmu sync.Mutex
	sem := make(chan struct{}, p.Parallel)
	var wg sync.WaitGroup
	for _, j := range jobs {
		wg.Add(1)
		sem <- struct{}{}
		go func(j batchJob) {
			defer wg.Done()
			defer func() { <-sem }()
			tb := time.Now()
			rs := runBatch(p, tier, seed, scratch, fmt.Sprintf("b%d", j.idx), j.cases, 0)
			if d := time.Since(tb); d > 20*time.Second && os.Getenv("VERIF_DEBUG") != "" {
				fmt.Fprintf(os.Stderr, "slow batch b%d (%v): %s .. %s\n", j.idx, d.Round(time.Second), j.cases[0].ID, j.cases[len(j.cases)-1].ID)
			}
			rmu.Lock()
			for _, r := range rs {
				results[r.CaseID] = r
			}
			rmu.Unlock()
		}(j)
	}
	wg.Wait()

	agg := &Aggregate{NonTrivial: map[string]bool{}, Obs: map[string]int64{}, Sets: map[string]map[string]bool{}, Families: map[string]int{}}
	for _, c := range cases {
		r, ok := results[c.ID]
		if !ok {
			r = Result{CaseID: c.ID, Verdict: Inconclusive, Msg: "no result"}
		}
		agg.add(p, c, r)
	}
	if p.PostProcess != nil {
		p.PostProcess(agg, scratch)
	}
	return finish(p, agg, tier, seed, t0, only != "")
}

func (a *Aggregate) add(p *Property, c Case, r Result) {
	a.Evaluations++
	a.Families[c.Family]++
	switch r.Verdict {
	case Inconclusive:
		a.Inconclusive++
		if len(a.InconcMsgs) < 10 {
			a.InconcMsgs = append(a.InconcMsgs, c.ID+": "+r.Msg)
		}
	case Violated:
		a.Conclusive++
		a.Violations = append(a.Violations, Violation{c, r.Sig, r.Msg, r.Witness})
		for _, m := range r.More {
			a.Violations = append(a.Violations, Violation{c, m.Sig, m.Msg, m.Witness})
		}
	default:
		a.Conclusive++
	}
	if r.NonTrivial && r.Verdict != Inconclusive {
		k := r.Key
		if k == "" {
			k = c.ID
		}
		if !a.NonTrivial[k] {
			a.NonTrivial[k] = true
			if r.Sample != nil && len(a.Samples) < p.MaxSamples {
				a.Samples = append(a.Samples, r.Sample)
			}
		}
	}
	for k, v := range r.Obs {
		a.Obs[k] += v
	}
	for k, vs := range r.Sets {
		if a.Sets[k] == nil {
			a.Sets[k] = map[string]bool{}
		}
		for _, v := range vs {
			a.Sets[k][v] = true
		}
	}
}

// runBatch runs cases in one child; on a child death or watchdog it attributes
// the failure to the open case, confirms it alone, and continues with the rest.
func runBatch(p *Property, tier string, seed int64, scratch, tag string, cases []Case, depth int) []Result {
	var all []Result
	rest := cases
	round := 0
	for len(rest) > 0 {
		round++
		rs, openID, timedOut, exitErr, logFile := runChild(p, tier, seed, scratch, fmt.Sprintf("%s-r%d", tag, round), rest, p.CaseTimeout)
		all = append(all, rs...)
		done := map[string]bool{}
		for _, r := range rs {
			done[r.CaseID] = true
		}
		if exitErr == nil && openID == "" {
			break
		}
		// find the culprit = open case without result
		culprit := -1
		for i, c := range rest {
			if c.ID == openID && !done[c.ID] {
				culprit = i
			}
		}
		if culprit < 0 {
			if ee, ok := exitErr.(*exec.ExitError); ok && ee.ExitCode() == 4 {
				// deliberate exit after a recorded result: continue with what is left
				var nr []Case
				for _, c := range rest {
					if !done[c.ID] {
						nr = append(nr, c)
					}
				}
				rest = nr
				continue
			}
			// child failed outside any case (start-up failure)
			for _, c := range rest {
				if !done[c.ID] {
					all = append(all, Result{CaseID: c.ID, Verdict: Inconclusive, Msg: fmt.Sprintf("child failed outside a case: %v (log %s)", exitErr, tail(logFile, 400))})
				}
			}
			break
		}
		c := rest[culprit]
		if depth == 0 {
			all = append(all, confirmAlone(p, tier, seed, scratch, tag, c, timedOut, logFile))
		} else {
			// we are the confirmation run itself
			v := Result{CaseID: c.ID, Verdict: Inconclusive, Msg: "died again"}
			all = append(all, v)
		}
		var nr []Case
		for i, c := range rest {
			if i != culprit && !done[c.ID] {
				nr = append(nr, c)
			}
		}
		rest = nr
	}
	return all
}

func confirmAlone(p *Property, tier string, seed int64, scratch, tag string, c Case, timedOut bool, firstLog string) Result {
	to := p.CaseTimeout
	if timedOut {
		to = p.HangConfirm
	}
	rs, openID, to2, exitErr, logFile := runChild(p, tier, seed, scratch, tag+"-confirm-"+shortHash(c.ID), []Case{c}, to)
	if len(rs) == 1 && exitErr == nil {
		r := rs[0]
		if timedOut {
			// keep the goroutine dump of the first (timed out) attempt for diagnosis
			dir := filepath.Join(verifRoot(), "replays")
			_ = os.MkdirAll(dir, 0o775)
			if b, err := os.ReadFile(firstLog); err == nil {
				_ = os.WriteFile(filepath.Join(dir, fmt.Sprintf("watchdog-%s-%s.log", p.ID, shortHash(c.ID))), b, 0o664)
			}
			r.Count("watchdog_fired_then_passed_alone", 1)
		}
		if r.Verdict == Held {
			// passes alone: the first failure is not reproducible in isolation
			if timedOut {
				return r // slow under load, finished alone: held
			}
			r.Verdict = Inconclusive
			r.Msg = "child died in batch but case passes alone; first log: " + tail(firstLog, 300)
		}
		return r
	}
	_ = openID
	if to2 {
		if p.HangIsViolation {
			return Result{CaseID: c.ID, Family: c.Family, Verdict: Violated, NonTrivial: true, Sig: "hang", Msg: fmt.Sprintf("case still running after %v when run alone", to),
				Witness: map[string]any{"log_tail": tail(logFile, 3000)}}
		}
		return Result{CaseID: c.ID, Family: c.Family, Verdict: Inconclusive, Msg: fmt.Sprintf("watchdog fired twice (%v alone)", to)}
	}
	// died twice: process-fatal outcome
	lt := tail(logFile, 6000)
	return Result{CaseID: c.ID, Family: c.Family, Verdict: Violated, NonTrivial: true, Sig: "process-death:" + deathSite(lt), Msg: fmt.Sprintf("child process died (%v) while running this case, twice", exitErr),
		Witness: map[string]any{"log_tail": lt}}
}

func deathSite(log string) string {
	for _, l := range strings.Split(log, "\n") {
		if strings.HasPrefix(l, "fatal error:") || strings.HasPrefix(l, "panic:") || strings.HasPrefix(l, "unexpected fault") || strings.HasPrefix(l, "SIG") {
			first := strings.TrimSpace(l)
			if len(first) > 60 {
				first = first[:60]
			}
			return strings.ReplaceAll(first, " ", "_") + "@" + PanicSite(log)
		}
	}
	return PanicSite(log)
}

func runChild(p *Property, tier string, seed int64, scratch, tag string, cases []Case, caseTimeout time.Duration) (rs []Result, openID string, timedOut bool, exitErr error, logFile string) {
	bf := filepath.Join(scratch, tag+".batch.json")
	of := filepath.Join(scratch, tag+".out.jsonl")
	logFile = filepath.Join(scratch, tag+".log")
	b, _ := json.Marshal(cases)
	if err := os.WriteFile(bf, b, 0o664); err != nil {
		return nil, "", false, err, logFile
	}
	lf, err := os.Create(logFile)
	if err != nil {
		return nil, "", false, err, logFile
	}
	defer lf.Close()
	cmd := exec.Command(os.Args[0], "-child", "-prop", p.ID, "-tier", tier, "-seed", fmt.Sprint(seed), "-batch", bf, "-out", of, "-case-timeout", caseTimeout.String())
	cmd.Stdout = lf
	cmd.Stderr = lf
	cmd.Env = append(os.Environ(), "VERIF_SCRATCH_PARENT="+scratch)
	for _, e := range p.ChildEnv {
		cmd.Env = append(cmd.Env, strings.ReplaceAll(strings.ReplaceAll(e, "{SCRATCH}", scratch), "{TAG}", tag))
	}
	cmd.SysProcAttr = &syscall.SysProcAttr{Setpgid: true}
	if err := cmd.Start(); err != nil {
		return nil, "", false, err, logFile
	}
	waitCh := make(chan error, 1)
	go func() { waitCh <- cmd.Wait() }()
	// generous overall watchdog: the child has its own per-case watchdog
	overall := time.Duration(len(cases)+2)*caseTimeout + 30*time.Second
	select {
	case exitErr = <-waitCh:
	case <-time.After(overall):
		_ = syscall.Kill(-cmd.Process.Pid, syscall.SIGQUIT)
		select {
		case exitErr = <-waitCh:
		case <-time.After(10 * time.Second):
			_ = syscall.Kill(-cmd.Process.Pid, syscall.SIGKILL)
			exitErr = <-waitCh
		}
		timedOut = true
	}
	f, err := os.Open(of)
	if err == nil {
		sc := bufio.NewScanner(f)
		sc.Buffer(make([]byte, 1<<20), 1<<28)
		for sc.Scan() {
			var l outLine
			if json.Unmarshal(sc.Bytes(), &l) != nil {
				continue
			}
			switch {
			case l.Open != "":
				openID = l.Open
			case l.Timeout != "":
				timedOut = true
				openID = l.Timeout
			case l.Result != nil:
				rs = append(rs, *l.Result)
				if l.Result.CaseID == openID {
					openID = ""
				}
			}
		}
		f.Close()
	}
	if exitErr == nil {
		os.Remove(logFile)
		os.Remove(of)
		os.Remove(bf)
	}
	return
}

func tail(file string, n int) string {
	b, err := os.ReadFile(file)
	if err != nil {
		return ""
	}
	// prefer the part starting at the first fatal marker
	for _, m := range []string{"fatal error:", "panic:", "unexpected fault address", "WATCHDOG"} {
		if i := bytes.Index(b, []byte(m)); i >= 0 {
			b = b[i:]
			if len(b) > n {
				b = b[:n]
			}
			return string(b)
		}
	}
	if len(b) > n {
		b = b[len(b)-n:]
	}
	return string(b)
}

func shortHash(s string) string {
	h := sha256.Sum256([]byte(s))
	return hex.EncodeToString(h[:6])
}

// ---------------------------------------------------------------- finish

type knownFinding struct {
	state, prop, sig, text string
}

func loadKnown() []knownFinding {
	var out []knownFinding
	b, err := os.ReadFile(filepath.Join(verifRoot(), "known_findings.txt"))
	if err != nil {
		return nil
	}
	for _, l := range strings.Split(string(b), "\n") {
		l = strings.TrimSpace(l)
		if l == "" || strings.HasPrefix(l, "#") {
			continue
		}
		var kf knownFinding
		if strings.HasPrefix(l, "open:") {
			kf.state = "open"
			l = strings.TrimSpace(strings.TrimPrefix(l, "open:"))
		} else if strings.HasPrefix(l, "fixed:") {
			kf.state = "fixed"
			l = strings.TrimSpace(strings.TrimPrefix(l, "fixed:"))
		} else {
			continue
		}
		fields := strings.Fields(l)
		var restStart int
		for i, f := range fields {
			if strings.HasPrefix(f, "property=") {
				kf.prop = strings.TrimPrefix(f, "property=")
				restStart = i + 1
			} else if strings.HasPrefix(f, "signature=") {
				kf.sig = strings.TrimPrefix(f, "signature=")
				restStart = i + 1
			}
		}
		kf.text = strings.Join(fields[restStart:], " ")
		out = append(out, kf)
	}
	return out
}

func finish(p *Property, a *Aggregate, tier string, seed int64, t0 time.Time, debugRun bool) int {
	known := loadKnown()
	exit := 0
	// group violations by signature
	bySig := map[string][]Violation{}
	var sigs []string
	for _, v := range a.Violations {
		if _, ok := bySig[v.Sig]; !ok {
			sigs = append(sigs, v.Sig)
		}
		bySig[v.Sig] = append(bySig[v.Sig], v)
	}
	sort.Strings(sigs)
	unlisted := 0
	knownHit := 0
	for _, sig := range sigs {
		vs := bySig[sig]
		var kf *knownFinding
		for i := range known {
			if known[i].state == "open" && known[i].prop == p.ID && known[i].sig == sig {
				kf = &known[i]
			}
		}
		if kf != nil {
			knownHit += len(vs)
			fmt.Printf("KNOWN-FINDING: property=%s signature=%s %s (%d cases, e.g. %s)\n", p.ID, sig, kf.text, len(vs), vs[0].Case.ID)
			continue
		}
		unlisted += len(vs)
		v := vs[0]
		rp := writeReplay(p, tier, seed, v, len(vs))
		fmt.Printf("VIOLATION property=%s replay=%s\n", p.ID, rp)
		fmt.Printf("  signature=%s cases=%d first=%s: %s\n", sig, len(vs), v.Case.ID, oneLine(v.Msg, 600))
		exit = 1
	}
	minNT := 2
	if p.MinNonTrivial != nil {
		minNT = p.MinNonTrivial(tier)
	}
	broken := ""
	if a.Evaluations == 0 {
		broken = "no cases"
	} else if float64(a.Conclusive) < p.MinConclusiveFrac*float64(a.Evaluations) {
		broken = fmt.Sprintf("only %d of %d cases conclusive (%v)", a.Conclusive, a.Evaluations, a.InconcMsgs)
	} else if len(a.NonTrivial) < minNT {
		broken = fmt.Sprintf("only %d distinct non-trivial cases, need %d", len(a.NonTrivial), minNT)
	}
	wall := time.Since(t0).Seconds()
	if !debugRun {
		writeEvidence(p, a, tier, seed, wall, unlisted, knownHit)
	}
	fmt.Printf("%s %s seed=%d: %d cases, %d conclusive, %d inconclusive, %d distinct non-trivial, %d violations (%d known) in %.1fs\n",
		p.ID, tier, seed, a.Evaluations, a.Conclusive, a.Inconclusive, len(a.NonTrivial), unlisted+knownHit, knownHit, wall)
	if len(a.InconcMsgs) > 0 {
		fmt.Printf("  inconclusive e.g.: %s\n", oneLine(strings.Join(a.InconcMsgs, " | "), 1500))
	}
	if exit == 0 && broken != "" && !debugRun {
		fmt.Printf("CHECK-BROKEN property=%s: %s\n", p.ID, broken)
		return 2
	}
	return exit
}

func oneLine(s string, n int) string {
	s = strings.ReplaceAll(s, "\n", " \\n ")
	if len(s) > n {
		s = s[:n] + "..."
	}
	return s
}

func writeReplay(p *Property, tier string, seed int64, v Violation, n int) string {
	dir := filepath.Join(verifRoot(), "replays")
	_ = os.MkdirAll(dir, 0o775)
	h := shortHash(p.ID + v.Sig + v.Case.ID + string(v.Case.P))
	path := filepath.Join(dir, fmt.Sprintf("%s-%s.json", p.ID, h))
	doc := map[string]any{
		"property": p.ID, "tier": tier, "seed": seed, "signature": v.Sig, "message": v.Msg,
		"case": v.Case, "witness": v.Witness, "cases_with_this_signature": n,
		"replay_cmd": fmt.Sprintf("./check %s --replay %s", p.ID, path),
	}
	b, _ := json.MarshalIndent(doc, "", " ")
	_ = os.WriteFile(path, b, 0o664)
	return path
}

func writeEvidence(p *Property, a *Aggregate, tier string, seed int64, wall float64, unlisted, knownHit int) {
	dir := filepath.Join(verifRoot(), "evidence")
	_ = os.MkdirAll(dir, 0o775)
	cov := map[string]any{
		"evaluations":         a.Evaluations,
		"distinct_nontrivial": len(a.NonTrivial),
		"rule":                p.Rule,
		"samples":             a.Samples,
		"conclusive":          a.Conclusive,
		"inconclusive":        a.Inconclusive,
		"cases_per_family":    a.Families,
		"observed":            a.Obs,
	}
	if len(a.Samples) == 0 {
		cov["samples"] = []any{}
	}
	distinct := map[string]any{}
	for k, s := range a.Sets {
		var vs []string
		for v := range s {
			vs = append(vs, v)
		}
		sort.Strings(vs)
		ex := vs
		if len(ex) > 40 {
			ex = ex[:40]
		}
		distinct[k] = map[string]any{"count": len(vs), "examples": ex}
	}
	cov["distinct_observed"] = distinct
	cov["known_finding_cases"] = knownHit
	doc := map[string]any{
		"property_id": p.ID, "tier": tier, "seed": seed, "level": p.Level,
		"coverage": cov, "assumptions": p.Assumptions, "wall_s": wall, "violations": unlisted,
	}
	b, _ := json.MarshalIndent(doc, "", " ")
	_ = os.WriteFile(filepath.Join(dir, p.ID+".json"), b, 0o664)
}

// ---------------------------------------------------------------- replay

func replayMain(p *Property, tier string, seed int64, file string) int {
	b, err := os.ReadFile(file)
	if err != nil {
		fmt.Fprintln(os.Stderr, err)
		return 2
	}
	var doc struct {
		Case Case   `json:"case"`
		Tier string `json:"tier"`
		Seed int64  `json:"seed"`
	}
	if err := json.Unmarshal(b, &doc); err != nil {
		fmt.Fprintln(os.Stderr, err)
		return 2
	}
	scratch, _ := os.MkdirTemp(scratchBase(), "verifr-"+p.ID+"-")
	defer os.RemoveAll(scratch)
	if doc.Tier != "" {
		tier = doc.Tier
	}
	env := &Env{Scratch: scratch, Tier: tier, Seed: doc.Seed, Replay: true}
	r := runGuarded(p, doc.Case, env)
	out, _ := json.MarshalIndent(r, "", " ")
	fmt.Println(string(out))
	if r.Verdict == Violated {
		fmt.Printf("VIOLATION property=%s replay=%s\n", p.ID, file)
		os.RemoveAll(scratch)
		return 1
	}
	return 0
}

// ---------------------------------------------------------------- helpers for properties

// MkCase builds a case with JSON-encoded params.
func MkCase(family, id string, params any) Case {
	b, err := json.Marshal(params)
	if err != nil {
		panic(err)
	}
	return Case{ID: family + "/" + id, Family: family, P: b}
}

// Params decodes the case parameters.
func Params(c Case, v any) {
	if err := json.Unmarshal(c.P, v); err != nil {
		panic(fmt.Sprintf("bad case params: %v", err))
	}
}

// HashOf returns a short stable hash of any JSON-able value.
func HashOf(v any) string {
	b, _ := json.Marshal(v)
	return shortHash(string(b))
}
