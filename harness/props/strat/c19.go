// Package strat holds the monitor for C19: the LMDB update strategies apply
// exactly the iterator's decisions, in the DBI's own key order.
package strat

import (
	"bytes"
	"encoding/binary"
	"errors"
	"fmt"
	"io"
	"sort"

	"github.com/PowerDNS/lmdb-go/lmdb"

	"github.com/PowerDNS/lightningstream/lmdbenv/strategy"

	"verif/lmdbx"
	"verif/rng"
	"verif/runner"
)

// Decisions of the scripted iterator.
const (
	Keep    = 0 // return the argument (nil for an absent key: no entry)
	Replace = 1 // return new bytes
	Delete  = 2 // return nil
	Append  = 3 // return the argument with a suffix appended (value depends on what the strategy passed in)
)

type entry struct {
	Key    []byte
	Stored []byte // nil = not stored
	InPos  int    // >= 0: position in the input
	Merge  int    // decision when the key is in the input
	Clean  int    // decision when the key is stored but not in the input
	NewVal []byte // value used for Replace
}

// scripted implements strategy.Iterator from a decision table.
type scripted struct {
	input [][]byte          // keys in input order
	tab   map[string]*entry // by key
	cur   int
	calls []string
	// contract violations by the strategy (not by the iterator)
	badMergeArg string
	// writes counts ObserveWrite calls (strategy.WriteObserver): the strategies report every change they make
	writes int
}

func (s *scripted) ObserveWrite() { s.writes++ }

func (s *scripted) Next() ([]byte, error) {
	if s.cur >= len(s.input) {
		return nil, io.EOF
	}
	k := s.input[s.cur]
	s.cur++
	return append([]byte{}, k...), nil
}

func (s *scripted) decide(d int, old []byte, e *entry) []byte {
	switch d {
	case Keep:
		if len(old) == 0 {
			return nil
		}
		return old
	case Replace:
		return append([]byte{}, e.NewVal...)
	case Append:
		return append(append([]byte{}, old...), e.NewVal...)
	}
	return nil
}

func (s *scripted) Merge(old []byte) ([]byte, error) {
	k := s.input[s.cur-1]
	e := s.tab[string(k)]
	return s.decide(e.Merge, old, e), nil
}

func (s *scripted) Clean(old []byte) ([]byte, error) {
	// Clean is called for a stored key: identify it by its value (values are unique per key)
	if len(old) == 0 {
		// zero-length stored values cannot be told apart: all of them carry the decision Delete
		return nil, nil
	}
	for _, e := range s.tab {
		if len(e.Stored) > 0 && bytes.HasPrefix(old, e.Stored) {
			return s.decide(e.Clean, old, e), nil
		}
	}
	s.badMergeArg = fmt.Sprintf("Clean called with a value that is not stored: %x", trunc(old))
	return old, nil
}

func trunc(b []byte) []byte {
	if len(b) > 32 {
		return b[:32]
	}
	return b
}

// order of the DBI
func cmpKeys(a, b []byte, intKey bool) int {
	if intKey {
		x, y := keyInt(a), keyInt(b)
		switch {
		case x < y:
			return -1
		case x > y:
			return 1
		}
		return 0
	}
	return bytes.Compare(a, b)
}

func keyInt(b []byte) uint64 {
	if len(b) == 4 {
		return uint64(binary.LittleEndian.Uint32(b))
	}
	return binary.LittleEndian.Uint64(b)
}

type kvp struct{ K, V []byte }

// model results
func modelUpdate(es []*entry, input [][]byte, tab map[string]*entry, intKey bool) []kvp {
	cur := map[string][]byte{}
	for _, e := range es {
		if e.Stored != nil {
			cur[string(e.Key)] = e.Stored
		}
	}
	sc := &scripted{}
	for _, k := range input {
		e := tab[string(k)]
		v := sc.decide(e.Merge, cur[string(k)], e)
		if len(v) == 0 {
			delete(cur, string(k))
		} else {
			cur[string(k)] = v
		}
	}
	return sorted(cur, intKey)
}

func modelIterUpdate(es []*entry, input [][]byte, tab map[string]*entry, intKey bool) []kvp {
	cur := map[string][]byte{}
	in := map[string]bool{}
	for _, k := range input {
		in[string(k)] = true
	}
	sc := &scripted{}
	for _, e := range es {
		if e.Stored != nil {
			if in[string(e.Key)] {
				cur[string(e.Key)] = e.Stored
			} else if v := sc.decide(e.Clean, e.Stored, e); len(v) > 0 {
				cur[string(e.Key)] = v
			}
		}
	}
	for _, k := range input {
		e := tab[string(k)]
		v := sc.decide(e.Merge, cur[string(k)], e)
		if len(v) == 0 {
			delete(cur, string(k))
		} else {
			cur[string(k)] = v
		}
	}
	return sorted(cur, intKey)
}

func modelEmptyPut(input [][]byte, tab map[string]*entry, intKey bool) []kvp {
	cur := map[string][]byte{}
	sc := &scripted{}
	for _, k := range input {
		e := tab[string(k)]
		v := sc.decide(e.Merge, nil, e)
		if len(v) > 0 {
			cur[string(k)] = v
		}
	}
	return sorted(cur, intKey)
}

func sorted(m map[string][]byte, intKey bool) []kvp {
	var out []kvp
	for k, v := range m {
		out = append(out, kvp{[]byte(k), v})
	}
	sort.Slice(out, func(i, j int) bool { return cmpKeys(out[i].K, out[j].K, intKey) < 0 })
	return out
}

func strictlySorted(input [][]byte, intKey bool) bool {
	for i := 1; i < len(input); i++ {
		if cmpKeys(input[i-1], input[i], intKey) >= 0 {
			return false
		}
	}
	return true
}

// ---------------------------------------------------------------- cases

type c19Params struct {
	Kind    string `json:"kind"`    // exhaustive | random | disorder
	KeyKind string `json:"keykind"` // bytes | int4 | int8
	N       int    `json:"n,omitempty"`
	From    int    `json:"from,omitempty"`
	To      int    `json:"to,omitempty"`
	Seed    uint64 `json:"seed,omitempty"`
	Count   int    `json:"count,omitempty"`
}

func C19() *runner.Property {
	return &runner.Property{
		ID:    "C19",
		Level: "exploration",
		Rule: "a scripted strategy.Iterator answers Merge/Clean from a decision table (keep/replace/delete/append-to-argument) and the real Update, IterUpdate and EmptyPut run in real LMDB write transactions; the resulting DBI content (read back in LMDB's own order) must equal a map model applying the same table in the DBI's order " +
			"(bytewise or unsigned native integer). Exhaustive: every assignment of {stored-only, input-only, both} x decision to up to N keys (N=4 quick, 5 thorough) for byte keys, 4- and 8-byte integer keys (key sets include 0, 255/256, 2^31, 2^32-1, 2^63+); " +
			"random: templates (disjoint, identical, interleaved, subset, superset, common prefixes, one side empty, all before/after) up to thousands of keys of 1-511 bytes with 0x00/0xff, stored values incl. zero-length ones; disorder: unsorted and duplicate inputs must be rejected or still give the model content. " +
			"Non-trivial = stored and input overlap partially, or the DBI is integer-keyed; distinct by case parameters and assignment index.",
		Assumptions: []string{"the iterator honours the interface contract (never returns an empty non-nil slice)", "little-endian host (the big-endian comparison branch is not reachable here)"},
		BatchSize:   6,
		CaseTimeout: 240e9,
		Cases: func(tier string, seed int64) []runner.Case {
			var cs []runner.Case
			r := rng.New(uint64(seed) ^ 0xC19)
			n := 4
			if tier == "thorough" {
				n = 5
			}
			total := 1
			for i := 0; i < n; i++ {
				total *= 10
			}
			chunk := total / 10
			for _, kk := range []string{"bytes", "int4", "int8"} {
				for from := 0; from < total; from += chunk {
					cs = append(cs, runner.MkCase("exhaustive", fmt.Sprintf("%s-n%d-%d", kk, n, from), c19Params{Kind: "exhaustive", KeyKind: kk, N: n, From: from, To: from + chunk, Seed: r.U64()}))
				}
			}
			nr, cnt := 64, 150
			if tier == "thorough" {
				nr, cnt = 1600, 600
			}
			for i := 0; i < nr; i++ {
				kk := []string{"bytes", "bytes", "int4", "int8"}[i%4]
				cs = append(cs, runner.MkCase("random", fmt.Sprintf("%s-%d", kk, i), c19Params{Kind: "random", KeyKind: kk, Seed: r.U64(), Count: cnt}))
				cs = append(cs, runner.MkCase("disorder", fmt.Sprintf("%s-%d", kk, i), c19Params{Kind: "disorder", KeyKind: kk, Seed: r.U64(), Count: cnt}))
			}
			return cs
		},
		Run: runC19,
	}
}

var intKeyPool = []uint64{0, 1, 2, 255, 256, 257, 65535, 65536, 1<<31 - 1, 1 << 31, 1<<31 + 1, 1<<32 - 1}
var intKeyPool8 = []uint64{1 << 32, 1<<32 + 1, 1 << 62, 1<<63 - 1, 1 << 63, 1<<63 + 5, 1<<64 - 1}

func mkIntKey(v uint64, width int) []byte {
	b := make([]byte, width)
	if width == 4 {
		binary.LittleEndian.PutUint32(b, uint32(v))
	} else {
		binary.LittleEndian.PutUint64(b, v)
	}
	return b
}

// genKeys returns n distinct keys of the kind, in DBI order.
func genKeys(r *rng.R, kind string, n int, hostile bool) [][]byte {
	seen := map[string]bool{}
	var ks [][]byte
	for len(ks) < n {
		var k []byte
		switch kind {
		case "int4":
			v := intKeyPool[r.Intn(len(intKeyPool))]
			if r.Chance(1, 3) {
				v = r.U64() & 0xffffffff
			}
			k = mkIntKey(v, 4)
		case "int8":
			pool := append(append([]uint64{}, intKeyPool...), intKeyPool8...)
			v := pool[r.Intn(len(pool))]
			if r.Chance(1, 3) {
				v = r.U64()
			}
			k = mkIntKey(v, 8)
		default:
			l := rng.Pick(r, 1, 1, 2, 3, 4, 8, 16, 100, 510, 511)
			if !hostile {
				l = rng.Pick(r, 1, 2, 3, 4, 8)
			}
			k = make([]byte, l)
			for i := range k {
				k[i] = rng.Pick(r, byte(0x00), 0x00, 0x01, 'a', 'b', 0x7f, 0x80, 0xfe, 0xff, 0xff)
			}
			// common prefixes: extend an existing key
			if len(ks) > 0 && r.Chance(1, 3) {
				base := ks[r.Intn(len(ks))]
				if len(base) < 500 {
					k = append(append([]byte{}, base...), rng.Pick(r, byte(0x00), 0x01, 0xff))
				}
			}
		}
		if !seen[string(k)] {
			seen[string(k)] = true
			ks = append(ks, k)
		}
	}
	intKey := kind != "bytes"
	sort.Slice(ks, func(i, j int) bool { return cmpKeys(ks[i], ks[j], intKey) < 0 })
	return ks
}

type harness struct {
	env   *lmdb.Env
	flags uint
	kind  string
	n     int
	res   *runner.Result
}

func (h *harness) dbiName() string { h.n++; return fmt.Sprintf("d%d", h.n%40) }

// runOne executes the three strategies for one table.
func (h *harness) runOne(es []*entry, input [][]byte, label string, expectOrdered bool) {
	intKey := h.kind != "bytes"
	tab := map[string]*entry{}
	for _, e := range es {
		tab[string(e.Key)] = e
	}
	type strat struct {
		name  string
		f     func(*lmdb.Txn, lmdb.DBI, strategy.Iterator) error
		model func() []kvp
		needs bool // requires sorted input
	}
	strats := []strat{
		{"Update", strategy.Update, func() []kvp { return modelUpdate(es, input, tab, intKey) }, false},
		{"IterUpdate", strategy.IterUpdate, func() []kvp { return modelIterUpdate(es, input, tab, intKey) }, true},
		{"EmptyPut", strategy.EmptyPut, func() []kvp { return modelEmptyPut(input, tab, intKey) }, false},
	}
	ordered := strictlySorted(input, intKey)
	for _, st := range strats {
		name := "c19"
		// reset the DBI and store
		var dbi lmdb.DBI
		err := h.env.Update(func(txn *lmdb.Txn) error {
			var err error
			dbi, err = txn.OpenDBI(name, lmdb.Create|h.flags)
			if err != nil {
				return err
			}
			if err := txn.Drop(dbi, false); err != nil {
				return err
			}
			for _, e := range es {
				if e.Stored != nil {
					if err := txn.Put(dbi, e.Key, e.Stored, 0); err != nil {
						return err
					}
				}
			}
			return nil
		})
		if err != nil {
			h.res.Verdict, h.res.Msg = runner.Inconclusive, "setup: "+err.Error()
			return
		}
		it := &scripted{input: input, tab: tab}
		var got []kvp
		var serr error
		noErr := errors.New("rollback")
		_ = h.env.Update(func(txn *lmdb.Txn) error {
			serr = st.f(txn, dbi, it)
			if serr != nil {
				return serr
			}
			d, err := lmdbx.ReadDBI(txn, name)
			if err != nil {
				serr = err
				return err
			}
			for _, kv := range d.KVs {
				got = append(got, kvp{kv.K, kv.V})
			}
			return noErr
		})
		h.res.Count("strategy_runs", 1)
		h.res.Count("runs_"+st.name, 1)
		wit := func() map[string]any {
			w := map[string]any{"strategy": st.name, "keykind": h.kind, "label": label, "input": hexKeys(input)}
			var tb []string
			for _, e := range es {
				tb = append(tb, fmt.Sprintf("key=%x stored=%x inpos=%d merge=%d clean=%d new=%x", trunc(e.Key), trunc(e.Stored), e.InPos, e.Merge, e.Clean, trunc(e.NewVal)))
			}
			w["table"] = tb
			return w
		}
		if it.badMergeArg != "" {
			h.res.Violate("clean-called-with-foreign-value", st.name+": "+it.badMergeArg, wit())
			continue
		}
		if serr != nil {
			if (!st.needs || ordered) && expectOrdered {
				sig := "valid-input-rejected:" + st.name
				if intKey && len(input) > 0 && keyInt(input[0]) == 0 && errors.Is(serr, strategy.ErrNotSorted) {
					sig = "intkey-zero-first-key-notsorted"
				}
				h.res.Violate(sig, fmt.Sprintf("%s rejected valid input (%s): %v", st.name, label, serr), wit())
			} else {
				h.res.Count("disorder_rejected", 1)
			}
			continue
		}
		if st.needs && !ordered {
			h.res.Count("disorder_accepted", 1)
		}
		// the write observer is how the syncer learns whether its transaction changed anything: it must have been told
		// of a write exactly when the strategy changed the DBI content (EmptyPut always drops, so it always reports)
		if st.name != "EmptyPut" {
			var beforeKV []kvp
			for _, e := range es {
				if e.Stored != nil {
					beforeKV = append(beforeKV, kvp{e.Key, e.Stored})
				}
			}
			sort.Slice(beforeKV, func(i, j int) bool { return cmpKeys(beforeKV[i].K, beforeKV[j].K, intKey) < 0 })
			changed := diffKVP(got, beforeKV) != ""
			if changed != (it.writes > 0) {
				h.res.Violate("write-observer-disagrees:"+st.name, fmt.Sprintf("%s (%s): DBI content changed=%v but the strategy reported %d writes to the observer", st.name, label, changed, it.writes), wit())
			}
			h.res.Count("write_observer_checks", 1)
		}
		want := st.model()
		if d := diffKVP(got, want); d != "" {
			sig := "content-differs:" + st.name
			if st.needs && !ordered {
				sig = "disorder-accepted-wrong-content:" + st.name
			}
			h.res.Violate(sig, fmt.Sprintf("%s (%s): DBI content differs from the model: %s", st.name, label, d), wit())
		}
	}
}

func hexKeys(ks [][]byte) []string {
	var out []string
	for i, k := range ks {
		if i >= 12 {
			out = append(out, "...")
			break
		}
		out = append(out, fmt.Sprintf("%x", trunc(k)))
	}
	return out
}

func diffKVP(got, want []kvp) string {
	for i := 0; i < len(got) || i < len(want); i++ {
		switch {
		case i >= len(got):
			return fmt.Sprintf("missing key %x (model has %d entries, DBI %d)", trunc(want[i].K), len(want), len(got))
		case i >= len(want):
			return fmt.Sprintf("extra key %x=%x (model has %d entries, DBI %d)", trunc(got[i].K), trunc(got[i].V), len(want), len(got))
		case !bytes.Equal(got[i].K, want[i].K):
			return fmt.Sprintf("position %d: DBI key %x, model key %x", i, trunc(got[i].K), trunc(want[i].K))
		case !bytes.Equal(got[i].V, want[i].V):
			return fmt.Sprintf("key %x: DBI value %x, model value %x", trunc(got[i].K), trunc(got[i].V), trunc(want[i].V))
		}
	}
	return ""
}

func runC19(c runner.Case, env *runner.Env) (res runner.Result) {
	var p c19Params
	runner.Params(c, &p)
	res.Key = c.ID
	e, err := lmdbx.Open(env.Dir("c19"), 256<<20)
	if err != nil {
		res.Verdict, res.Msg = runner.Inconclusive, err.Error()
		return
	}
	defer e.Close()
	h := &harness{env: e, kind: p.KeyKind, res: &res}
	if p.KeyKind != "bytes" {
		h.flags = strategy.LMDBIntegerKeyFlag
	}
	r := rng.New(p.Seed)
	switch p.Kind {
	case "exhaustive":
		// fixed key sets per kind, chosen to include the interesting boundaries
		var sets [][][]byte
		switch p.KeyKind {
		case "int4":
			sets = [][][]byte{intSet(4, 0, 1, 255, 256, 1<<31, 1<<32-1), intSet(4, 0, 256, 65536, 1<<31-1, 1<<31+1, 1<<32-2)}
		case "int8":
			sets = [][][]byte{intSet(8, 0, 255, 256, 1<<32, 1<<63, 1<<64-1), intSet(8, 1, 1<<31, 1<<62, 1<<63-1, 1<<63+5, 1<<64-2)}
		default:
			sets = [][][]byte{{{0x00}, {0x00, 0x00}, {0x00, 0xff}, {'a'}, {'a', 0x00}, {0xff}}, {{0x01}, {'a'}, {'a', 'b'}, {'b'}, {0xfe, 0xff}, {0xff, 0xff, 0xff}}}
		}
		for idx := p.From; idx < p.To; idx++ {
			for si, set := range sets {
				keys := set[:p.N]
				var es []*entry
				var input [][]byte
				x := idx
				partial, hasStoredOnly, hasInputOnly := false, false, false
				for i, k := range keys {
					o := x % 10
					x /= 10
					en := &entry{Key: k, InPos: -1, NewVal: []byte(fmt.Sprintf("new-%d-%d", si, i))}
					switch {
					case o < 4: // stored only, clean decision o
						en.Stored = []byte(fmt.Sprintf("old-%d-%d", si, i))
						en.Clean = o
						hasStoredOnly = true
					case o < 6: // input only, merge(nil) decision: 4 -> Keep(nil), 5 -> Replace
						en.Merge = o - 4
						en.InPos = len(input)
						input = append(input, k)
						hasInputOnly = true
					default: // both, merge decision o-6
						en.Stored = []byte(fmt.Sprintf("old-%d-%d", si, i))
						en.Merge = o - 6
						en.InPos = len(input)
						input = append(input, k)
						partial = true
					}
					es = append(es, en)
				}
				h.runOne(es, input, fmt.Sprintf("assignment %d set %d", idx, si), true)
				res.Count("tables", 1)
				if (partial && (hasStoredOnly || hasInputOnly)) || p.KeyKind != "bytes" {
					res.NonTrivial = true
					res.Count("tables_nontrivial", 1)
				}
			}
		}
		res.Sample = map[string]any{"case": c.ID, "keykind": p.KeyKind, "keys_per_table": p.N, "assignments": []int{p.From, p.To}}
	case "random", "disorder":
		for i := 0; i < p.Count; i++ {
			n := rng.Pick(r, 1, 2, 3, 5, 8, 20, 60)
			if i%50 == 0 {
				n = rng.Pick(r, 500, 2000, 5000)
			}
			keys := genKeys(r, p.KeyKind, n, true)
			tmpl := rng.Pick(r, "disjoint", "identical", "interleaved", "subset", "superset", "stored-empty", "input-empty", "input-before", "input-after", "random")
			var es []*entry
			var input [][]byte
			for j, k := range keys {
				en := &entry{Key: k, InPos: -1, NewVal: append([]byte("N"), r.Bytes(1+r.Intn(12))...), Merge: r.Intn(4), Clean: r.Intn(4)}
				stored, in := false, false
				switch tmpl {
				case "disjoint":
					stored = r.Bool()
					in = !stored
				case "identical":
					stored, in = true, true
				case "interleaved":
					stored = j%2 == 0
					in = !stored
				case "subset": // input subset of stored
					stored = true
					in = r.Chance(1, 3)
				case "superset":
					in = true
					stored = r.Chance(1, 3)
				case "stored-empty":
					in = true
				case "input-empty":
					stored = true
				case "input-before":
					in = j < len(keys)/2
					stored = !in
				case "input-after":
					stored = j < len(keys)/2
					in = !stored
				default:
					stored, in = r.Bool(), r.Bool()
				}
				if !stored && !in {
					stored = true
				}
				if stored {
					en.Stored = append([]byte(fmt.Sprintf("S%d-", j)), r.Bytes(r.Intn(10))...)
					if r.Chance(1, 6) {
						// a zero-length stored value (LMDB stores those fine); an empty merge result still means delete
						en.Stored = []byte{}
						en.Clean = Delete
						res.Count("stored_zero_length_values", 1)
					}
				}
				if in {
					if !stored && en.Merge == Delete {
						en.Merge = Replace
					}
					en.InPos = len(input)
					input = append(input, k)
				}
				es = append(es, en)
			}
			label := fmt.Sprintf("template %s, %d keys", tmpl, n)
			if p.Kind == "disorder" && len(input) >= 2 {
				switch r.Intn(3) {
				case 0: // swap two adjacent
					j := r.Intn(len(input) - 1)
					input[j], input[j+1] = input[j+1], input[j]
					label += ", two adjacent input keys swapped"
				case 1: // duplicate a key
					j := r.Intn(len(input))
					input = append(input[:j+1], input[j:]...)
					label += ", one input key duplicated"
				case 2: // shuffle
					rng.Shuffle(r, input)
					label += ", input shuffled"
				}
				h.runOne(es, input, label, false)
			} else {
				h.runOne(es, input, label, true)
			}
			res.Count("tables", 1)
			res.Add("templates", tmpl)
			if tmpl == "random" || tmpl == "subset" || tmpl == "superset" || p.KeyKind != "bytes" {
				res.NonTrivial = true
			}
		}
		res.Sample = map[string]any{"case": c.ID, "keykind": p.KeyKind, "tables": p.Count}
	}
	return
}

func intSet(width int, vs ...uint64) [][]byte {
	var out [][]byte
	for _, v := range vs {
		out = append(out, mkIntKey(v, width))
	}
	return out
}
