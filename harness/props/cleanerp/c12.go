// Package cleanerp holds the monitor for C12: the snapshot cleaner never
// deletes what is still needed.
package cleanerp

import (
	"context"
	"fmt"
	"sort"
	"strings"
	"sync"
	"sync/atomic"
	"time"

	"github.com/PowerDNS/lmdb-go/lmdb"

	"github.com/PowerDNS/lightningstream/config"
	"github.com/PowerDNS/lightningstream/snapshot"
	"github.com/PowerDNS/lightningstream/syncer"
	"github.com/PowerDNS/lightningstream/syncer/cleaner"
	"github.com/PowerDNS/lightningstream/utils/verifhook"

	"verif/bucket"
	"verif/inst"
	"verif/lmdbx"
	"verif/lsx"
	"verif/props/loopp"
	"verif/rng"
	"verif/runner"
	"verif/wire"
)

type c12Params struct {
	Part  string          `json:"part"` // direct | syncer | receiveonly
	Seed  uint64          `json:"seed"`
	Count int             `json:"count"`
	Clean *loopp.CleanScn `json:"clean,omitempty"`
}

func C12() *runner.Property {
	return &runner.Property{
		ID:    "C12",
		Level: "exploration",
		Rule: "direct: a real cleaner.Worker runs with a virtual clock (RunOnce(ctx, now)) over generated histories: 1-6 instances publishing 0-8 snapshots in timestamp order, foreign files (other databases db2/db-x, junk, temp names, malformed timestamps), clock increments on both sides of and exactly at must_keep_interval and remove_old_instances_interval (incl. 0), " +
			"commit notifications before/at/after each snapshot time, List and Delete fault scripts. Every Delete event in the bucket log is checked by an independent policy (well-formed snapshot of this database; first listed >= keep interval ago; never an instance's newest unless silent longer than the stale interval AND committed >= its time; none in a run whose List failed); " +
			"bounded progress: after a fault-free run in which every name was first seen more than the keep interval ago exactly one snapshot per instance is left (none if the stale rule applied). syncer: a real Sync loop with cleaning enabled and a stale foreign instance: the newest snapshot of that instance may only be deleted after a successful own Store that followed its merge, also while Stores fail and are retried. " +
			"syncer-two-phase: after the own upload a second, newer snapshot of the stale instance and a snapshot of another stale instance appear and are merged without a local change (no upload): the cleaner, run ~100 times meanwhile, must keep both. " +
			"receiveonly: a real receive-only Sync with cleaning configured never issues Store or Delete. Non-trivial = >= 1 Delete issued or >= 1 candidate protected by a clause.",
		Assumptions: []string{"snapshots of one instance appear in the listing in timestamp order (the property's quantifier)", "the policy does not say which files must be deleted except through the bounded-progress clause"},
		BatchSize:   6,
		CaseTimeout: 120e9,
		Cases: func(tier string, seed int64) []runner.Case {
			r := rng.New(uint64(seed) ^ 0xC12)
			nd, ns := 160, 48
			if tier == "thorough" {
				nd, ns = 12000, 2000
			}
			var cs []runner.Case
			for i := 0; i < nd; i++ {
				cs = append(cs, runner.MkCase("direct", fmt.Sprint(i), c12Params{Part: "direct", Seed: r.U64(), Count: 50}))
			}
			for i := 0; i < ns; i++ {
				cs = append(cs, runner.MkCase("syncer", fmt.Sprint(i), c12Params{Part: "syncer", Seed: r.U64(), Count: 1}))
			}
			for _, native := range []bool{true, false} {
				for _, sf := range []int{0, 1, 3} {
					for _, aw := range []bool{false, true} {
						if aw && sf == 0 {
							continue
						}
						sc := loopp.CleanScn{Native: native, StoreFails: sf, AfterWrite: aw}
						cs = append(cs, runner.MkCase("syncer-two-phase", sc.ID(), c12Params{Part: "syncer2", Clean: &sc}))
					}
				}
			}
			for i := 0; i < 4; i++ {
				cs = append(cs, runner.MkCase("receiveonly", fmt.Sprint(i), c12Params{Part: "receiveonly", Seed: r.U64(), Count: 1}))
			}
			return cs
		},
		Run: runC12,
	}
}

func runC12(c runner.Case, env *runner.Env) (res runner.Result) {
	var p c12Params
	runner.Params(c, &p)
	res.Key = c.ID
	r := rng.New(p.Seed)
	switch p.Part {
	case "direct":
		for i := 0; i < p.Count; i++ {
			directHistory(r.Derive(uint64(i)), &res, fmt.Sprintf("%s#%d", c.ID, i))
		}
		res.Sample = map[string]any{"case": c.ID, "histories": p.Count, "deletes": res.Obs["deletes"], "protected": res.Obs["protected_by_keep"] + res.Obs["protected_newest"] + res.Obs["protected_uncommitted"]}
	case "syncer":
		syncerScenario(r, env, &res, c.ID)
	case "syncer2":
		loopp.RunCleanForcedPolicy(*p.Clean, env, &res)
	case "receiveonly":
		receiveOnlyScenario(r, env, &res, c.ID)
	}
	return
}

// ---------------------------------------------------------------- direct histories

const db = "db"

var base = time.Date(2025, 3, 1, 12, 0, 0, 0, time.UTC)

type policy struct {
	firstSeen map[string]time.Time
	committed map[string]time.Time
}

func directHistory(r *rng.R, res *runner.Result, label string) {
	keep := rng.Pick(r, time.Duration(0), time.Second, 10*time.Minute, time.Hour)
	stale := rng.Pick(r, time.Duration(0), time.Hour, 7*24*time.Hour, 30*24*time.Hour)
	conf := config.Cleanup{Enabled: true, Interval: time.Hour, MustKeepInterval: keep, RemoveOldInstancesInterval: stale}
	b := bucket.New()
	w := cleaner.New(db, b, conf, lsx.NullLogger())
	pol := &policy{firstSeen: map[string]time.Time{}, committed: map[string]time.Time{}}
	now := base
	ninst := 1 + r.Intn(6)
	lastTS := map[string]time.Time{}
	var trace []string
	foreign := []string{"db__x", "db__i0__20250301-120000-000000000.pb.gz", "db__i0__20250301-120000-000000000__G.tmp", "db2__i0__20250301-120000-000000000__GX.pb.gz",
		"db-x__i1__20250301-120000-000000000__GX.pb.gz", "db__i0__20250301-120000-00000000__GX.pb.gz", "db__i0__20251301-120000-000000000__GX.pb.gz", "db", "db__", "README.md",
		"db__i0__20250301-120000-000000000__GX.pb.gz.tmp", "db2__i1__20200101-000000-000000000__GX.pb.gz", "db2__i1__20200102-000000-000000000__GX.pb.gz"}
	for _, f := range foreign {
		if r.Chance(1, 2) {
			b.Put(f, []byte("x"))
		}
	}
	steps := 10 + r.Intn(51)
	var listFail, delFailName = false, ""
	b.SetHook(func(op, name string, nth int) bucket.Decision {
		if op == "List" && listFail {
			return bucket.Decision{Err: bucket.ErrInjected}
		}
		if op == "Delete" && delFailName != "" && (delFailName == "*" || name == delFailName) {
			return bucket.Decision{Err: bucket.ErrInjected}
		}
		return bucket.Decision{}
	})
	for step := 0; step < steps; step++ {
		// clock
		inc := rng.Pick(r, time.Duration(0), time.Nanosecond, keep-time.Nanosecond, keep, keep+time.Nanosecond, stale-time.Nanosecond, stale, stale+time.Nanosecond,
			time.Duration(r.Intn(3600))*time.Second, time.Duration(r.Intn(100))*time.Hour)
		if inc < 0 {
			inc = 0
		}
		now = now.Add(inc)
		// align the clock exactly on (and 1 ns around) "newest snapshot time + stale interval" of some instance
		if len(lastTS) > 0 && r.Chance(1, 4) {
			var ins []string
			for in := range lastTS {
				ins = append(ins, in)
			}
			sort.Strings(ins)
			in := ins[r.Intn(len(ins))]
			t := lastTS[in].Add(stale + rng.Pick(r, -time.Nanosecond, 0, 0, time.Nanosecond))
			if t.After(now) {
				now = t
				// make sure the merge of that snapshot is "proven"
				if r.Bool() {
					w.SetCommitted(map[string]time.Time{in: lastTS[in]})
					pol.committed[in] = lastTS[in]
				}
			}
		}
		// publications: new snapshots, in timestamp order per instance
		for k := 0; k < r.Intn(3); k++ {
			in := fmt.Sprintf("i%d", r.Intn(ninst))
			ts := now.Add(-time.Duration(r.Intn(5000)) * time.Millisecond)
			if r.Chance(1, 4) { // an old instance showing up with old data
				ts = now.Add(-rng.Pick(r, stale-time.Nanosecond, stale, stale+time.Nanosecond, stale+time.Hour, 2*stale))
			}
			if lt, ok := lastTS[in]; ok && !ts.After(lt) {
				ts = lt.Add(time.Duration(1+r.Intn(1000)) * time.Millisecond)
			}
			if ts.After(now) {
				continue
			}
			lastTS[in] = ts
			name := snapshot.Name(db, in, "GX", ts)
			b.Put(name, []byte("s"))
			trace = append(trace, fmt.Sprintf("t+%v publish %s", now.Sub(base), name))
		}
		// a restarted instance (another generation id) publishes at the very timestamp of its newest snapshot: a
		// different file, first seen now, whatever else it shares with the earlier one (seed C12j)
		if r.Chance(1, 5) && len(lastTS) > 0 {
			ins := make([]string, 0, len(lastTS))
			for in := range lastTS {
				ins = append(ins, in)
			}
			sort.Strings(ins)
			in := ins[r.Intn(len(ins))]
			name := snapshot.Name(db, in, rng.Pick(r, "GA", "GZ"), lastTS[in])
			if _, exists := b.Get(name); !exists {
				b.Put(name, []byte("s"))
				res.Count("same_timestamp_other_generation_published", 1)
				trace = append(trace, fmt.Sprintf("t+%v publish %s (same timestamp, other generation)", now.Sub(base), name))
			}
		}
		// commit notifications
		if r.Chance(1, 3) {
			in := fmt.Sprintf("i%d", r.Intn(ninst))
			if lt, ok := lastTS[in]; ok {
				ct := lt.Add(rng.Pick(r, -time.Nanosecond, 0, time.Nanosecond, -time.Hour, time.Hour))
				m := map[string]time.Time{in: ct}
				w.SetCommitted(m)
				// SetCommitted copies entries: the latest notification per instance counts
				pol.committed[in] = ct
				trace = append(trace, fmt.Sprintf("t+%v committed %s=%s", now.Sub(base), in, ct.Format(time.RFC3339Nano)))
			}
		}
		listFail = r.Chance(1, 12)
		delFailName = ""
		if r.Chance(1, 10) {
			delFailName = "*"
		}
		runAndCheck(w, b, pol, now, conf, listFail, delFailName != "", res, label, &trace)
		if res.Verdict == runner.Violated && len(res.More) > 3 {
			return
		}
	}
	// bounded progress: advance beyond the keep interval, two fault-free runs
	listFail, delFailName = false, ""
	now = now.Add(keep + time.Second)
	runAndCheck(w, b, pol, now, conf, false, false, res, label, &trace)
	now = now.Add(keep + time.Second)
	before := snapshotNames(b)
	allOld := true
	for _, n := range before {
		if fs, ok := pol.firstSeen[n]; !ok || !(now.Sub(fs) > keep) {
			allOld = false
		}
	}
	runAndCheck(w, b, pol, now, conf, false, false, res, label, &trace)
	if allOld {
		perInst := map[string][]string{}
		for _, n := range snapshotNames(b) {
			ni, _ := snapshot.ParseName(n)
			perInst[ni.InstanceID] = append(perInst[ni.InstanceID], n)
		}
		for in, ns := range perInst {
			if len(ns) > 1 {
				res.Violate("superseded-snapshots-not-removed", fmt.Sprintf("instance %s still has %d snapshots after a fault-free run in which all were first seen more than the keep interval (%v) ago: %v", in, len(ns), keep, ns),
					map[string]any{"label": label, "keep": keep.String(), "stale": stale.String(), "trace": tail(trace, 25)})
			}
		}
		res.Count("bounded_progress_checked", 1)
	}
}

func snapshotNames(b *bucket.B) []string {
	var out []string
	for _, n := range b.Names() {
		if ni, err := snapshot.ParseName(n); err == nil && ni.SyncerName == db && ni.Kind == snapshot.KindSnapshot && strings.HasPrefix(n, db+"__") {
			out = append(out, n)
		}
	}
	return out
}

func tail(s []string, n int) []string {
	if len(s) > n {
		return s[len(s)-n:]
	}
	return s
}

// runAndCheck performs one RunOnce and judges every Delete it issued.
func runAndCheck(w *cleaner.Worker, b *bucket.B, pol *policy, now time.Time, conf config.Cleanup, listFailed, delFails bool, res *runner.Result, label string, trace *[]string) {
	logStart := len(b.Log())
	_ = w.RunOnce(context.Background(), now)
	res.Count("cleaner_runs", 1)
	evs := b.Log()[logStart:]
	var listed []string
	listOK := false
	for _, e := range evs {
		if e.Op == "List" && e.Err == "" {
			listed = e.Names
			listOK = true
		}
	}
	if listOK {
		for _, n := range listed {
			if _, ok := pol.firstSeen[n]; !ok {
				pol.firstSeen[n] = now
			}
		}
	}
	// newest snapshot per instance in this listing
	newest := map[string]string{}
	newestTS := map[string]time.Time{}
	for _, n := range listed {
		ni, err := snapshot.ParseName(n)
		if err != nil || ni.Kind != snapshot.KindSnapshot || ni.SyncerName != db {
			continue
		}
		if t, ok := newestTS[ni.InstanceID]; !ok || ni.Timestamp.After(t) {
			newest[ni.InstanceID], newestTS[ni.InstanceID] = n, ni.Timestamp
		}
	}
	wit := func() map[string]any {
		return map[string]any{"label": label, "now": now.Format(time.RFC3339Nano), "keep": conf.MustKeepInterval.String(), "stale": conf.RemoveOldInstancesInterval.String(), "listing": listed, "trace": tail(*trace, 25)}
	}
	deletedInst := map[string]int{}
	deletedNow := map[string]bool{}
	for _, e := range evs {
		if e.Op != "Delete" {
			continue
		}
		res.Count("deletes", 1)
		*trace = append(*trace, fmt.Sprintf("t+%v DELETE %s err=%q", now.Sub(base), e.Name, e.Err))
		if !listOK {
			res.Violate("delete-after-failed-list", "Delete of "+e.Name+" in a run whose List failed", wit())
			continue
		}
		ni, err := snapshot.ParseName(e.Name)
		if err != nil || ni.Kind != snapshot.KindSnapshot {
			res.Violate("delete-of-non-snapshot", "Delete of a name that is not a well-formed snapshot: "+e.Name, wit())
			continue
		}
		if ni.SyncerName != db || !strings.HasPrefix(e.Name, db+"__") {
			res.Violate("delete-of-other-database", fmt.Sprintf("cleaner of %q deleted %s", db, e.Name), wit())
			continue
		}
		fs, seen := pol.firstSeen[e.Name]
		if !seen || now.Sub(fs) < conf.MustKeepInterval {
			res.Violate("delete-within-keep-interval", fmt.Sprintf("Delete of %s first seen %v ago (keep interval %v)", e.Name, now.Sub(fs), conf.MustKeepInterval), wit())
		}
		// N is the instance's newest if every other listed snapshot of the instance is older or was already deleted in
		// this run (without equal timestamps this is newest[instance] == N; with them, deleting one of two files of
		// the newest timestamp while the other stays is the removal of a superseded file)
		isNewest := true
		for _, n := range listed {
			if n == e.Name || deletedNow[n] {
				continue
			}
			if oi, err := snapshot.ParseName(n); err == nil && oi.Kind == snapshot.KindSnapshot && oi.SyncerName == db && oi.InstanceID == ni.InstanceID && !oi.Timestamp.Before(ni.Timestamp) {
				isNewest = false
			}
		}
		deletedNow[e.Name] = true
		if isNewest {
			age := now.Sub(ni.Timestamp)
			ct, has := pol.committed[ni.InstanceID]
			switch {
			case !(age > conf.RemoveOldInstancesInterval):
				res.Violate("newest-deleted-not-stale", fmt.Sprintf("newest snapshot %s of instance %s deleted at age %v (stale interval %v)", e.Name, ni.InstanceID, age, conf.RemoveOldInstancesInterval), wit())
			case !has || ct.Before(ni.Timestamp):
				res.Violate("newest-deleted-uncommitted", fmt.Sprintf("newest snapshot %s of stale instance %s deleted although the committed time is %v (snapshot time %s)", e.Name, ni.InstanceID, ct, ni.Timestamp.Format(time.RFC3339Nano)), wit())
			default:
				res.Count("stale_instance_deletes", 1)
			}
		} else {
			res.Count("superseded_deletes", 1)
		}
		if e.Err == "" {
			deletedInst[ni.InstanceID]++
		}
		res.NonTrivial = true
	}
	// which clause protected candidates (evidence only)
	for in, n := range newest {
		_ = in
		if fs, ok := pol.firstSeen[n]; ok && now.Sub(fs) <= conf.MustKeepInterval {
			res.Count("protected_by_keep", 1)
			res.NonTrivial = true
		} else if now.Sub(newestTS[in]) <= conf.RemoveOldInstancesInterval {
			res.Count("protected_newest", 1)
			res.NonTrivial = true
		} else if ct, has := pol.committed[in]; !has || ct.Before(newestTS[in]) {
			res.Count("protected_uncommitted", 1)
			res.NonTrivial = true
		}
	}
	if listFailed {
		res.Count("runs_with_failed_list", 1)
	}
	if delFails {
		res.Count("runs_with_failing_delete", 1)
	}
}

// ---------------------------------------------------------------- syncer level

type yieldEv struct {
	inst, point, detail string
}

// syncerScenario: instance A (cleaning enabled) merges the only snapshot of a
// stale instance X; the cleaner is run with a virtual clock at every position
// relative to A's merge and A's (possibly failing) uploads.
func syncerScenario(r *rng.R, env *runner.Env, res *runner.Result, label string) {
	b := bucket.New()
	staleTS := time.Now().Add(-30 * 24 * time.Hour)
	xname := snapshot.Name(db, "x", "GX", staleTS)
	xs := &wire.Snap{FormatVersion: 3, CompatVersion: 1, Meta: wire.Meta{DatabaseName: db, InstanceID: "x", GenerationID: "GX", TimestampNano: uint64(staleTS.UnixNano())},
		DBIs: []wire.DBI{{Name: "d", Entries: []wire.KV{{Key: []byte("only-in-x"), Val: []byte("precious"), TS: uint64(staleTS.UnixNano())}}}}}
	b.Put(xname, wire.Gzip(wire.EncodeSnapshot(xs)))
	conf := lsx.FastConfig("a")
	conf.Storage.Cleanup = config.Cleanup{Enabled: true, Interval: 10 * time.Hour, MustKeepInterval: 0, RemoveOldInstancesInterval: 24 * time.Hour}
	conf.StorageRetryCount = 6
	native := r.Bool()
	a, err := inst.New(env.Dir("c12a"), b, db, "a", inst.Opt{Native: native, Conf: &conf})
	if err != nil {
		res.Verdict, res.Msg = runner.Inconclusive, err.Error()
		return
	}
	defer a.Close()
	// some local data so that A uploads at start-up? no: A starts empty, X's blob exists -> no start-up upload
	storeFails := r.Intn(4) // first k Store attempts fail
	failAfterWrite := r.Chance(1, 4)
	var mu sync.Mutex
	var events []string
	var loadedX, storedOK, runDone int32
	var cl *cleaner.Worker
	var violations []string
	vnow := time.Now().Add(time.Hour)
	runCleaner := func(where string) {
		if cl == nil || atomic.LoadInt32(&runDone) == 0 {
			return
		}
		start := len(b.Log())
		_ = cl.RunOnce(context.Background(), vnow)
		vnow = vnow.Add(time.Minute)
		for _, e := range b.Log()[start:] {
			if e.Op == "Delete" && e.Name == xname {
				mu.Lock()
				events = append(events, "DELETE x at "+where)
				if atomic.LoadInt32(&loadedX) == 0 || atomic.LoadInt32(&storedOK) == 0 {
					violations = append(violations, fmt.Sprintf("the stale instance's only snapshot was deleted at %q: merged=%v, own successful Store after the merge=%v", where, atomic.LoadInt32(&loadedX) == 1, atomic.LoadInt32(&storedOK) == 1))
				}
				mu.Unlock()
			}
		}
		atomic.AddInt32(&cleanerRuns, 1)
	}
	var storeN int32
	b.SetHook(func(op, name string, nth int) bucket.Decision {
		if op == "Store" {
			n := int(atomic.AddInt32(&storeN, 1))
			// the cleaner runs while the upload is being (re)tried; same goroutine as the sync loop
			runCleaner(fmt.Sprintf("store attempt %d", n))
			if n <= storeFails {
				mu.Lock()
				events = append(events, fmt.Sprintf("store attempt %d fails", n))
				mu.Unlock()
				return bucket.Decision{Err: bucket.ErrInjected, AfterWrite: failAfterWrite && n == storeFails}
			}
		}
		return bucket.Decision{}
	})
	b.OnMutation = func(bb *bucket.B, ev bucket.Event) {
		if ev.Op == "Store" && ev.Err == "" && atomic.LoadInt32(&loadedX) == 1 {
			atomic.StoreInt32(&storedOK, 1)
		}
	}
	var loopEnds int32
	var wrote int32
	verifhook.Set(func(instance, point, detail string) {
		if point == "cleaner.run_done" {
			atomic.StoreInt32(&runDone, 1)
			return
		}
		if instance != "a" {
			return
		}
		mu.Lock()
		events = append(events, point+" "+detail)
		mu.Unlock()
		switch point {
		case "load.done":
			if detail == xname {
				atomic.StoreInt32(&loadedX, 1)
			}
			runCleaner("load.done")
		case "loop.end":
			n := atomic.AddInt32(&loopEnds, 1)
			runCleaner("loop.end")
			// after the merge, the application writes once (so that A uploads)
			if atomic.LoadInt32(&loadedX) == 1 && n >= 2 && atomic.CompareAndSwapInt32(&wrote, 0, 1) {
				_, _ = lmdbx.Update(a.Env, func(txn *lmdb.Txn) error {
					if native {
						return inst.NativePut(txn, "d", []byte("local"), uint64(time.Now().UnixNano()), false, []byte("v"))
					}
					return lmdbx.Put(txn, "d", 0, []byte("local"), []byte("v"))
				})
			}
		case "send.before_store", "send.after_store", "loop.top", "load.before_txn":
			runCleaner(point)
		}
	})
	defer verifhook.Set(nil)
	cl = a.S.VerifCleaner()
	ctx, cancel := context.WithCancel(context.Background())
	done := make(chan error, 1)
	go func() { done <- a.S.Sync(ctx) }()
	deadline := time.Now().Add(30 * time.Second)
	for time.Now().Before(deadline) {
		if atomic.LoadInt32(&storedOK) == 1 && atomic.LoadInt32(&loopEnds) > 30 {
			break
		}
		select {
		case err := <-done:
			done <- err
			deadline = time.Now()
		default:
		}
		time.Sleep(time.Millisecond)
	}
	cancel()
	select {
	case <-done:
	case <-time.After(5 * time.Second):
	}
	verifhook.Set(nil)
	res.Count("syncer_scenarios", 1)
	res.Count("cleaner_runs_in_syncer_scenarios", int64(atomic.LoadInt32(&cleanerRuns)))
	res.Add("store_failures", fmt.Sprint(storeFails))
	mu.Lock()
	defer mu.Unlock()
	wit := map[string]any{"label": label, "native": native, "store_fails": storeFails, "fail_after_write": failAfterWrite, "events": tail(events, 60)}
	for _, v := range violations {
		res.Violate("stale-newest-deleted-before-own-upload", v, wit)
	}
	if atomic.LoadInt32(&loadedX) == 0 {
		res.Verdict, res.Msg = runner.Inconclusive, "X's snapshot was never merged"
		return
	}
	// data conservation: the key that only X had must still be in some newest snapshot
	if !keyInBucket(b, "only-in-x") {
		res.Violate("stale-instance-data-lost-from-bucket", "after the cleaner ran, no snapshot in the bucket contains the stale instance's key", wit)
	}
	res.NonTrivial = true
	res.Sample = map[string]any{"case": label, "native": native, "store_fails": storeFails, "events_tail": tail(events, 6)}
}

var cleanerRuns int32

func keyInBucket(b *bucket.B, key string) bool {
	for _, n := range b.Names() {
		data, _ := b.Get(n)
		ws, err := wire.DecodeBlob(data)
		if err != nil {
			continue
		}
		for _, d := range ws.DBIs {
			for _, e := range d.Entries {
				if string(e.Key) == key {
					return true
				}
			}
		}
	}
	return false
}

// ---------------------------------------------------------------- receive-only

func receiveOnlyScenario(r *rng.R, env *runner.Env, res *runner.Result, label string) {
	b := bucket.New()
	// several old snapshots of other instances that a cleaner would remove
	for i := 0; i < 4; i++ {
		ts := time.Now().Add(-time.Duration(40-i) * 24 * time.Hour)
		s := &wire.Snap{FormatVersion: 3, CompatVersion: 1, Meta: wire.Meta{DatabaseName: db, InstanceID: "x", GenerationID: "GX", TimestampNano: uint64(ts.UnixNano())},
			DBIs: []wire.DBI{{Name: "d", Entries: []wire.KV{{Key: []byte("k"), Val: []byte(fmt.Sprint(i)), TS: uint64(ts.UnixNano())}}}}}
		b.Put(snapshot.Name(db, "x", "GX", ts), wire.Gzip(wire.EncodeSnapshot(s)))
	}
	conf := lsx.FastConfig("ro")
	conf.Storage.Cleanup = config.Cleanup{Enabled: true, Interval: time.Millisecond, MustKeepInterval: 0, RemoveOldInstancesInterval: time.Nanosecond}
	conf.StorageForceSnapshotInterval = time.Millisecond
	native := r.Bool()
	a, err := inst.New(env.Dir("c12ro"), b, db, "ro", inst.Opt{Native: native, Conf: &conf, Options: syncer.Options{ReceiveOnly: true}})
	if err != nil {
		res.Verdict, res.Msg = runner.Inconclusive, err.Error()
		return
	}
	defer a.Close()
	var loopEnds int32
	verifhook.Set(func(instance, point, detail string) {
		if instance == "ro" && point == "loop.end" {
			n := atomic.AddInt32(&loopEnds, 1)
			if n%5 == 0 {
				_, _ = lmdbx.Update(a.Env, func(txn *lmdb.Txn) error {
					if native {
						return inst.NativePut(txn, "d", []byte(fmt.Sprintf("l%d", n)), uint64(time.Now().UnixNano()), false, []byte("v"))
					}
					return lmdbx.Put(txn, "d", 0, []byte(fmt.Sprintf("l%d", n)), []byte("v"))
				})
			}
		}
	})
	defer verifhook.Set(nil)
	ctx, cancel := context.WithCancel(context.Background())
	done := make(chan error, 1)
	go func() { done <- a.S.Sync(ctx) }()
	deadline := time.Now().Add(20 * time.Second)
	for time.Now().Before(deadline) && atomic.LoadInt32(&loopEnds) < 60 {
		time.Sleep(time.Millisecond)
	}
	cancel()
	select {
	case <-done:
	case <-time.After(5 * time.Second):
	}
	verifhook.Set(nil)
	res.Count("receive_only_scenarios", 1)
	res.Count("receive_only_loop_iterations", int64(atomic.LoadInt32(&loopEnds)))
	if atomic.LoadInt32(&loopEnds) < 60 {
		res.Verdict, res.Msg = runner.Inconclusive, fmt.Sprintf("only %d loop iterations", loopEnds)
		return
	}
	var muts []string
	for _, e := range b.Log() {
		if e.Op == "Store" || e.Op == "Delete" {
			muts = append(muts, e.Op+" "+e.Name)
		}
	}
	sort.Strings(muts)
	if len(muts) > 0 {
		res.Violate("receive-only-mutated-bucket", fmt.Sprintf("a receive-only instance issued %d bucket mutations, e.g. %s", len(muts), muts[0]), map[string]any{"label": label, "native": native, "mutations": muts})
	}
	res.NonTrivial = true
	res.Sample = map[string]any{"case": label, "native": native, "loop_iterations": loopEnds}
}
