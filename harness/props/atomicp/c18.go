// Package atomicp holds the monitor for C18: a snapshot is merged
// all-or-nothing, for every supported format version.
package atomicp

import (
	"context"
	"fmt"
	"strings"
	"sync"
	"sync/atomic"
	"time"

	"github.com/PowerDNS/lmdb-go/lmdb"

	"github.com/PowerDNS/lightningstream/config"
	"github.com/PowerDNS/lightningstream/lmdbenv/dbiflags"

	"verif/bucket"
	"verif/inst"
	"verif/lmdbx"
	"verif/rng"
	"verif/runner"
	"verif/wire"
)

type c18Params struct {
	Kind    string `json:"kind"` // malformed | transform | missingdbi | mapfull | cancel | versions | meaning | private
	Native  bool   `json:"native"`
	Seed    uint64 `json:"seed"`
	NDBI    int    `json:"ndbi"`
	FailDBI int    `json:"fail_dbi"`
	FailPos string `json:"fail_pos"` // first | middle | last
	Sub     string `json:"sub,omitempty"`
	Format  uint32 `json:"format,omitempty"`
	Compat  uint32 `json:"compat,omitempty"`
	MapMB   int    `json:"map_mb,omitempty"`
	SnapKB  int    `json:"snap_kb,omitempty"`
	CancelK int    `json:"cancel_k,omitempty"`
}

func C18() *runner.Property {
	return &runner.Property{
		ID: "C18", Level: "fault_enumeration",
		Rule: "a real LoadOnce merges snapshots of 1-5 DBIs (built with the independent encoder) into an LMDB with existing data while a reader goroutine runs read transactions throughout. The failure is placed at every DBI index and, inside it, at the first, a middle and the last entry: malformed entry bytes (4 variants; DBI data is parsed lazily so this surfaces mid-merge), unsupported transform, transform/flag mismatch, " +
			"missing DBI with a pre-v3 snapshot in shadow mode (with/without override_create_flags), map full (map sizes 1-8 MB against snapshots of 0.5-16 MB), cancellation after the k-th context poll; format x compat versions 0..4 x 0..4; native and shadow. On failure a byte-exact dump of the whole LMDB (all DBIs incl. private ones, DBI list and flags) and LastTxnID must be unchanged; " +
			"the reader must see all or none of a snapshot's entries (every entry carries the batch id, in two DBIs). Success cases check the documented meaning: v1 empty value = deletion, v2/v3 flag = deletion and empty live values stay live (native), newer compat version refused, format 0 refused, private DBIs of the snapshot ignored. " +
			"Non-trivial = the merge had already written >= 1 entry before the failure (position > first DBI/entry) or the case is a version-gate/meaning case.",
		Assumptions: []string{"failure positions inside a DBI are first/middle/last entry", "cancellation is injected through a context whose Done channel closes after k polls (LoadOnce polls after each DBI)"},
		BatchSize:   8, CaseTimeout: 180e9,
		Cases: func(tier string, seed int64) []runner.Case {
			r := rng.New(uint64(seed) ^ 0xC18)
			var cs []runner.Case
			add := func(p c18Params) {
				p.Seed = r.U64()
				cs = append(cs, runner.MkCase(p.Kind, fmt.Sprintf("%s-native=%v-n%d-f%d-%s-%s-v%d.%d-m%d-s%d-k%d", p.Kind, p.Native, p.NDBI, p.FailDBI, p.FailPos, p.Sub, p.Format, p.Compat, p.MapMB, p.SnapKB, p.CancelK), p))
			}
			for _, native := range []bool{true, false} {
				for ndbi := 1; ndbi <= 5; ndbi += 2 {
					for fd := 0; fd < ndbi; fd++ {
						for _, pos := range []string{"first", "middle", "last"} {
							for _, sub := range []string{"bad-length", "wrong-wiretype", "truncated-fixed64", "key-overlong"} {
								add(c18Params{Kind: "malformed", Native: native, NDBI: ndbi, FailDBI: fd, FailPos: pos, Sub: sub, Format: 3, Compat: 1})
							}
						}
						for _, sub := range []string{"unknown-transform", "dupsort-flag-without-transform", "transform-without-dupsort-flag", "native-with-transform"} {
							if sub == "native-with-transform" && !native {
								continue
							}
							add(c18Params{Kind: "transform", Native: native, NDBI: ndbi, FailDBI: fd, Sub: sub, Format: 3, Compat: 1})
						}
						for k := 1; k <= ndbi+1; k++ {
							add(c18Params{Kind: "cancel", Native: native, NDBI: ndbi, FailDBI: fd, CancelK: k, Format: 3, Compat: 1})
						}
					}
				}
				for f := uint32(0); f <= 4; f++ {
					for c := uint32(0); c <= 4; c++ {
						add(c18Params{Kind: "versions", Native: native, NDBI: 2, Format: f, Compat: c})
					}
				}
				for _, f := range []uint32{1, 2, 3} {
					add(c18Params{Kind: "meaning", Native: native, NDBI: 2, Format: f, Compat: 1})
				}
				add(c18Params{Kind: "private", Native: native, NDBI: 3, Format: 3, Compat: 1})
				maps := []int{1, 2, 4, 8}
				snaps := []int{512, 2048, 6000, 16000}
				if tier != "thorough" {
					maps, snaps = []int{1, 4}, []int{512, 3000, 9000}
				}
				for _, mm := range maps {
					for _, sk := range snaps {
						add(c18Params{Kind: "mapfull", Native: native, NDBI: 3, MapMB: mm, SnapKB: sk, Format: 3, Compat: 1})
					}
				}
			}
			// native mode: one local value is not in the native format (shorter than a header / no header at all) and
			// the snapshot carries that key
			for fd := 0; fd < 3; fd++ {
				for _, pos := range []string{"first", "middle", "last"} {
					for _, sub := range []string{"short", "headerless"} {
						add(c18Params{Kind: "localmalformed", Native: true, NDBI: 3, FailDBI: fd, FailPos: pos, Sub: sub, Format: 3, Compat: 1})
					}
				}
			}
			// a DupSort DBI the instance does not have yet arrives in a current-format snapshot without any transform,
			// and the instance runs without dupsort_hack: whatever LoadOnce decides, it decides for the whole snapshot
			for fd := 0; fd < 3; fd++ {
				add(c18Params{Kind: "missingdbi", Native: false, NDBI: 3, FailDBI: fd, Sub: "dupsort-nohack", Format: 3, Compat: 1})
			}
			for _, f := range []uint32{1, 2} {
				for _, sub := range []string{"no-override", "override"} {
					for fd := 0; fd < 3; fd++ {
						add(c18Params{Kind: "missingdbi", Native: false, NDBI: 3, FailDBI: fd, Sub: sub, Format: f, Compat: 1})
					}
				}
			}
			if tier == "thorough" {
				for i := 0; i < 3000; i++ {
					p := c18Params{Kind: "malformed", Native: r.Bool(), NDBI: 1 + r.Intn(5), FailPos: rng.Pick(r, "first", "middle", "last"), Sub: rng.Pick(r, "bad-length", "wrong-wiretype", "truncated-fixed64", "key-overlong"), Format: rng.Pick(r, uint32(1), 2, 3), Compat: 1}
					p.FailDBI = r.Intn(p.NDBI)
					p.Sub += fmt.Sprintf("-r%d", i)
					add(p)
				}
			}
			return cs
		},
		Run: runC18,
	}
}

// pollCtx is cancelled after its Done channel was requested k times.
type pollCtx struct {
	context.Context
	k      int32
	closed chan struct{}
	open   chan struct{}
	polls  int32
}

func newPollCtx(k int) *pollCtx {
	c := &pollCtx{Context: context.Background(), k: int32(k), closed: make(chan struct{}), open: make(chan struct{})}
	close(c.closed)
	return c
}

func (c *pollCtx) Done() <-chan struct{} {
	if atomic.AddInt32(&c.polls, 1) >= c.k {
		return c.closed
	}
	return c.open
}

func (c *pollCtx) Err() error {
	if atomic.AddInt32(&c.polls, 1) >= c.k {
		return context.Canceled
	}
	return nil
}

const entriesPerDBI = 40

func batchVal(batch int, i int) string { return fmt.Sprintf("batch-%04d-entry-%03d", batch, i) }

// buildSnap: every entry carries the batch id; DBIs d0.. ; newer than anything local
func buildSnap(p c18Params, batch int, ts uint64) *wire.Snap {
	s := &wire.Snap{FormatVersion: p.Format, CompatVersion: p.Compat, Meta: wire.Meta{DatabaseName: "db", InstanceID: "r", GenerationID: "GX", TimestampNano: ts}}
	for d := 0; d < p.NDBI; d++ {
		wd := wire.DBI{Name: fmt.Sprintf("d%d", d)}
		for i := 0; i < entriesPerDBI; i++ {
			wd.Entries = append(wd.Entries, wire.KV{Key: []byte(fmt.Sprintf("k%03d", i)), Val: []byte(batchVal(batch, i)), TS: ts + uint64(i)})
		}
		s.DBIs = append(s.DBIs, wd)
	}
	return s
}

func failIndex(pos string) int {
	switch pos {
	case "first":
		return 0
	case "middle":
		return entriesPerDBI / 2
	}
	return entriesPerDBI - 1
}

func runC18(c runner.Case, env *runner.Env) (res runner.Result) {
	var p c18Params
	runner.Params(c, &p)
	res.Key = c.ID
	ctx := context.Background()
	b := bucket.New()
	opt := inst.Opt{Native: p.Native}
	if p.Kind == "mapfull" {
		opt.MapSize = int64(p.MapMB) << 20
	}
	if p.Kind == "missingdbi" && strings.HasPrefix(p.Sub, "override") {
		fl := dbiflags.Flags(0)
		opt.DBIOptions = map[string]config.DBIOptions{}
		for d := 0; d < p.NDBI; d++ {
			opt.DBIOptions[fmt.Sprintf("d%d", d)] = config.DBIOptions{OverrideCreateFlags: &fl}
		}
	}
	if p.Kind == "transform" && (p.Sub == "transform-without-dupsort-flag" || p.Sub == "dupsort-flag-without-transform") && !p.Native {
		opt.DupSortHack = true
	}
	x, err := inst.New(env.Dir("c18"), b, "db", "a", opt)
	if err != nil {
		res.Verdict, res.Msg = runner.Inconclusive, err.Error()
		return
	}
	defer x.Close()
	// existing local data (batch 0), older than the snapshot's
	baseTS := uint64(time.Now().UnixNano())
	localDBIs := p.NDBI
	if p.Kind == "missingdbi" {
		localDBIs = p.FailDBI // DBIs from FailDBI on do not exist locally
	}
	if p.Kind == "versions" && p.Native && p.NDBI >= 2 && (p.Format == 0 || p.Compat > 3) {
		// a refused snapshot that would introduce a DBI this instance does not have: the refusal must not leave the
		// DBI (or a transaction) behind (seed C18j)
		localDBIs = p.NDBI - 1
		res.Count("refused_snapshots_introducing_a_new_dbi", 1)
	}
	_, err = lmdbx.Update(x.Env, func(txn *lmdb.Txn) error {
		for d := 0; d < localDBIs; d++ {
			for i := 0; i < entriesPerDBI; i += 2 {
				k, v := []byte(fmt.Sprintf("k%03d", i)), []byte(batchVal(0, i))
				var err error
				if p.Native {
					err = inst.NativePut(txn, fmt.Sprintf("d%d", d), k, baseTS-1e9, false, v)
				} else {
					err = lmdbx.Put(txn, fmt.Sprintf("d%d", d), 0, k, v)
				}
				if err != nil {
					return err
				}
			}
		}
		if p.Kind == "localmalformed" {
			fi := failIndex(p.FailPos)
			bad := []byte("short")
			if p.Sub == "headerless" {
				bad = []byte("a plain application value without any header, longer than twenty-four bytes")
				bad[16] = 7 // where a header carries its version byte
			}
			if err := lmdbx.Put(txn, fmt.Sprintf("d%d", p.FailDBI), 0, []byte(fmt.Sprintf("k%03d", fi)), bad); err != nil {
				return err
			}
		}
		// a private DBI that must never be touched by a merge
		return lmdbx.Put(txn, "_sync_private", 0, []byte("p"), []byte("local-private"))
	})
	if err != nil {
		res.Verdict, res.Msg = runner.Inconclusive, "setup: "+err.Error()
		return
	}
	if !p.Native && localDBIs > 0 {
		// bring the shadow DBIs into existence (steady state)
		if _, _, err := x.Send(ctx); err != nil {
			res.Verdict, res.Msg = runner.Inconclusive, "initial send: "+err.Error()
			return
		}
	}
	// ---- reader: all-or-none per batch
	var stopReader int32
	var readerTxns, tornSeen, wantTotal int64
	wantTotal = int64(p.NDBI * entriesPerDBI)
	var tornMsg atomic.Value
	var rwg sync.WaitGroup
	rwg.Add(1)
	go func() {
		defer rwg.Done()
		for atomic.LoadInt32(&stopReader) == 0 {
			_ = x.Env.View(func(txn *lmdb.Txn) error {
				atomic.AddInt64(&readerTxns, 1)
				batches := map[string]int{}
				total := 0
				for d := 0; d < p.NDBI; d++ {
					dd, err := lmdbx.ReadDBI(txn, fmt.Sprintf("d%d", d))
					if err != nil {
						continue
					}
					for _, kv := range dd.KVs {
						v := string(kv.V)
						if i := strings.Index(v, "batch-"); i >= 0 && len(v) >= i+10 {
							batches[v[i:i+10]]++
							total++
						}
					}
				}
				// batch 1 entries: either none or all NDBI*entriesPerDBI
				if n := int64(batches["batch-0001"]); n != 0 && n != atomic.LoadInt64(&wantTotal) {
					atomic.AddInt64(&tornSeen, 1)
					tornMsg.Store(fmt.Sprintf("a read transaction saw %d of %d entries of the snapshot being merged", n, atomic.LoadInt64(&wantTotal)))
				}
				return nil
			})
		}
	}()
	defer func() {
		atomic.StoreInt32(&stopReader, 1)
		rwg.Wait()
	}()

	// newer than anything local (shadow mode stamps local data at capture time)
	snap := buildSnap(p, 1, baseTS+3600e9)
	expectedTotal := int64(p.NDBI * entriesPerDBI)
	if p.Kind == "private" {
		expectedTotal = entriesPerDBI
	}
	atomic.StoreInt64(&wantTotal, expectedTotal)
	expectFail := true
	either := false // the outcome is not predicted: failure => unchanged, success => complete
	wroteBefore := p.FailDBI > 0
	var blob []byte
	loadCtx := context.Context(ctx)
	switch p.Kind {
	case "malformed":
		t := wire.Tree(snap)
		// locate the entry and replace its encoding
		di := -1
		for fi := range t.F {
			if t.F[fi].Num == 3 {
				di++
				if di == p.FailDBI {
					dm := t.F[fi].Sub
					ei := -1
					for k := range dm.F {
						if dm.F[k].Num == 2 {
							ei++
							if ei == failIndex(p.FailPos) {
								dm.F[k].Raw = malformedEntry(strings.SplitN(p.Sub, "-r", 2)[0], dm.F[k].Sub)
							}
						}
					}
				}
			}
		}
		blob = wire.Gzip(t.Encode())
		wroteBefore = p.FailDBI > 0 || p.FailPos != "first"
	case "transform":
		d := &snap.DBIs[p.FailDBI]
		switch p.Sub {
		case "unknown-transform":
			d.Transform = "rot13_v9"
		case "dupsort-flag-without-transform":
			d.Flags = uint64(lmdb.DupSort)
		case "transform-without-dupsort-flag":
			d.Transform = "dupsort_hack_v1"
		case "native-with-transform":
			d.Transform = "dupsort_hack_v1"
			d.Flags = uint64(lmdb.DupSort)
			if !p.Native {
				// a consistent dupsort DBI for an instance without the hack
			}
		}
		blob = wire.Gzip(wire.EncodeSnapshot(snap))
	case "missingdbi":
		// shadow mode, pre-v3 snapshot, the DBI does not exist locally
		if p.Sub == "dupsort-nohack" {
			for d := p.FailDBI; d < p.NDBI; d++ {
				// as a sender with dupsort_hack writes it: flag and transform agree
				snap.DBIs[d].Flags = uint64(lmdb.DupSort)
				snap.DBIs[d].Transform = "dupsort_hack_v1"
			}
		}
		blob = wire.Gzip(wire.EncodeSnapshot(snap))
		expectFail = !strings.HasPrefix(p.Sub, "override")
		if p.Sub == "dupsort-nohack" {
			expectFail, either = false, true
		}
	case "localmalformed":
		blob = wire.Gzip(wire.EncodeSnapshot(snap))
		expectFail, either = false, true
		wroteBefore = p.FailDBI > 0 || p.FailPos != "first"
	case "cancel":
		loadCtx = newPollCtx(p.CancelK)
		blob = wire.Gzip(wire.EncodeSnapshot(snap))
		// LoadOnce polls the context at least once after each merged DBI (shadow mode: further polls in the
		// mirror passes), so k <= number of DBIs is certainly reached; a later k may or may not be
		expectFail = p.CancelK <= p.NDBI
		either = !expectFail
		wroteBefore = true
	case "versions":
		blob = wire.Gzip(wire.EncodeSnapshot(snap))
		expectFail = p.Format == 0 || p.Compat > 3
		wroteBefore = true // a gate case
	case "mapfull":
		// big values so that the map fills up somewhere in the merge
		per := p.SnapKB * 1024 / (p.NDBI * entriesPerDBI)
		for d := range snap.DBIs {
			for i := range snap.DBIs[d].Entries {
				v := make([]byte, per)
				copy(v, batchVal(1, i))
				for j := len(batchVal(1, i)); j < len(v); j++ {
					v[j] = byte(j*31 + i)
				}
				snap.DBIs[d].Entries[i].Val = v
			}
		}
		blob = wire.Gzip(wire.EncodeSnapshot(snap))
		expectFail = false // decided by the outcome: either it fits or the LMDB must be unchanged
		either = true
	case "meaning":
		runMeaning(p, x, &res)
		return
	case "private":
		snap.DBIs[1].Name = "_sync_private"
		snap.DBIs[1].Entries = []wire.KV{{Key: []byte("p"), Val: []byte("remote-private"), TS: baseTS + 5}}
		snap.DBIs[2].Name = "_sync_shadow_evil"
		blob = wire.Gzip(wire.EncodeSnapshot(snap))
		expectFail = false
	}
	before, _, _ := lmdbx.DumpEnv(x.Env)
	lastBefore := lmdbx.LastTxnID(x.Env)
	_, _, lerr := x.LoadBytes(loadCtx, "db__r__20300101-000000-000000000__GX.pb.gz", blob, 0)
	// let the reader observe the final state a few times
	t0 := atomic.LoadInt64(&readerTxns)
	for i := 0; i < 1000 && atomic.LoadInt64(&readerTxns) < t0+3; i++ {
		time.Sleep(100 * time.Microsecond)
	}
	after, _, _ := lmdbx.DumpEnv(x.Env)
	lastAfter := lmdbx.LastTxnID(x.Env)
	res.Count("merges", 1)
	res.Count("reader_transactions", atomic.LoadInt64(&readerTxns))
	wit := map[string]any{"params": p, "loadonce_error": fmt.Sprint(lerr)}
	if n := atomic.LoadInt64(&tornSeen); n > 0 {
		res.Violate("reader-saw-partial-merge", fmt.Sprint(tornMsg.Load()), wit)
	}
	if lerr != nil {
		res.Count("failed_merges", 1)
		res.Add("failure_kinds", firstWords(lerr.Error(), 5))
		if df := lmdbx.Diff(before, after); df != "" {
			res.Violate("failed-merge-changed-lmdb", fmt.Sprintf("LoadOnce failed (%v) but the LMDB changed: %s", lerr, df), wit)
		} else if lastAfter != lastBefore {
			res.Violate("failed-merge-committed-transaction", fmt.Sprintf("LoadOnce failed (%v) but LastTxnID moved %d -> %d", lerr, lastBefore, lastAfter), wit)
		}
		if !expectFail && !either && p.Kind == "versions" {
			res.Violate("supported-version-refused", fmt.Sprintf("format %d compat %d was refused: %v", p.Format, p.Compat, lerr), wit)
		}
		if p.Kind == "missingdbi" && !expectFail && !either {
			res.Violate("override-create-flags-ignored", "with override_create_flags the pre-v3 snapshot must be accepted: "+lerr.Error(), wit)
		}
		if p.Kind == "private" {
			res.Violate("valid-snapshot-refused", "a snapshot with private DBIs must be merged (the private DBIs ignored): "+lerr.Error(), wit)
		}
	} else {
		res.Count("successful_merges", 1)
		if expectFail {
			sig := "invalid-snapshot-accepted:" + p.Kind
			if p.Kind == "cancel" {
				sig = "cancelled-merge-reported-success"
			}
			res.Violate(sig, fmt.Sprintf("LoadOnce returned success for a %s case (%s, format %d compat %d)", p.Kind, p.Sub, p.Format, p.Compat), wit)
			// a partially applied snapshot is the worse outcome: report it too
			st, _ := inst.LogicalOf(after, p.Native)
			full := 0
			for d := 0; d < p.NDBI; d++ {
				for _, v := range st[fmt.Sprintf("d%d", d)] {
					if strings.Contains(v.Val, "batch-0001") {
						full++
					}
				}
			}
			if full != 0 && full != p.NDBI*entriesPerDBI {
				res.Violate("partial-merge-committed", fmt.Sprintf("%d of %d entries of the snapshot were committed", full, p.NDBI*entriesPerDBI), wit)
			}
		}
		if p.Kind == "private" {
			if pv := after["_sync_private"]; pv == nil || len(pv.KVs) != 1 || string(pv.KVs[0].V) != "local-private" {
				res.Violate("private-dbi-modified", "the snapshot's _sync_private DBI modified the local one", wit)
			}
			if after["_sync_shadow_evil"] != nil || after["evil"] != nil {
				res.Violate("private-dbi-created", "a private DBI of the snapshot was created locally", wit)
			}
		}
		if p.Kind == "versions" || p.Kind == "mapfull" || p.Kind == "cancel" || p.Kind == "missingdbi" || p.Kind == "private" || p.Kind == "localmalformed" {
			// complete: every entry of the non-private DBIs present
			st, _ := inst.LogicalOf(after, p.Native)
			for d := 0; d < p.NDBI; d++ {
				name := fmt.Sprintf("d%d", d)
				if p.Kind == "private" && d > 0 {
					continue
				}
				n := 0
				for _, v := range st[name] {
					if strings.Contains(v.Val, "batch-0001") {
						n++
					}
				}
				if n != entriesPerDBI {
					res.Violate("successful-merge-incomplete", fmt.Sprintf("LoadOnce succeeded but DBI %s has %d of %d entries of the snapshot", name, n, entriesPerDBI), wit)
				}
				if !p.Native && p.Sub == "dupsort-nohack" {
					// the application's view is part of the merge: all or nothing there too
					an := 0
					if ad := after[name]; ad != nil {
						for _, kv := range ad.KVs {
							if strings.Contains(string(kv.V), "batch-0001") {
								an++
							}
						}
					}
					if an != entriesPerDBI {
						res.Violate("successful-merge-incomplete", fmt.Sprintf("LoadOnce succeeded but the application DBI %s has %d of %d entries of the snapshot (timestamped state: %d)", name, an, entriesPerDBI, n), wit)
					}
				}
			}
		}
	}
	res.NonTrivial = wroteBefore
	res.Sample = map[string]any{"params": p, "error": fmt.Sprint(lerr), "reader_txns": atomic.LoadInt64(&readerTxns)}
	return
}

func firstWords(s string, n int) string {
	w := 0
	for i := range s {
		if s[i] == ' ' {
			w++
			if w == n {
				return s[:i]
			}
		}
	}
	return s
}

func malformedEntry(kind string, kv *wire.Msg) []byte {
	good := kv.Encode()
	switch kind {
	case "bad-length":
		// the entry claims more bytes than the DBI message has
		return append(wire.AppendVarint([]byte{0x12}, uint64(len(good)+100000), 0), good...)
	case "wrong-wiretype":
		// key field with wire type varint inside the entry
		bad := append([]byte{0x08, 0x05}, good...)
		return append(wire.AppendVarint([]byte{0x12}, uint64(len(bad)), 0), bad...)
	case "truncated-fixed64":
		bad := append(append([]byte{}, good...), 0x19, 0x01, 0x02)
		return append(wire.AppendVarint([]byte{0x12}, uint64(len(bad)), 0), bad...)
	case "key-overlong":
		// a well-formed entry whose key exceeds LMDB's maximum key size
		long := (&wire.Msg{F: []wire.Field{{Num: 1, WT: wire.WTBytes, B: make([]byte, 600)}, {Num: 2, WT: wire.WTBytes, B: []byte("v")}, {Num: 3, WT: wire.WTFixed64, V: 1 << 62}}}).Encode()
		return append(wire.AppendVarint([]byte{0x12}, uint64(len(long)), 0), long...)
	}
	return good
}

// runMeaning: documented meaning of each supported format version.
func runMeaning(p c18Params, x *inst.Inst, res *runner.Result) {
	ctx := context.Background()
	ts := uint64(time.Now().UnixNano())
	s := &wire.Snap{FormatVersion: p.Format, CompatVersion: 1, Meta: wire.Meta{DatabaseName: "db", InstanceID: "r", GenerationID: "GX", TimestampNano: ts}}
	d := wire.DBI{Name: "d0"}
	d.Entries = []wire.KV{
		{Key: []byte("k000"), Val: nil, TS: ts + 1},                   // empty value: v1 = deletion, v2+ = live empty
		{Key: []byte("k002"), Val: []byte("x"), TS: ts + 2, Flags: 1}, // deleted flag (with a stray value)
		{Key: []byte("k004"), Val: []byte("new"), TS: ts + 3},
		{Key: []byte("new1"), Val: nil, TS: ts + 4},
	}
	s.DBIs = []wire.DBI{d}
	_, _, err := x.LoadSnap(ctx, s, "r", time.Now(), 0)
	wit := map[string]any{"params": p}
	if err != nil {
		res.Violate("supported-version-refused", fmt.Sprintf("a format version %d snapshot was refused: %v", p.Format, err), wit)
		return
	}
	st, _ := x.Logical()
	get := func(k string) (inst.Ver, bool) { v, ok := st["d0"][k]; return v, ok }
	v0, ok0 := get("k000")
	v2, ok2 := get("k002")
	v4, _ := get("k004")
	vn, okn := get("new1")
	if v4.Val != "new" || v4.Del {
		res.Violate("meaning-live-value", fmt.Sprintf("format %d: k004 = %v", p.Format, v4), wit)
	}
	switch {
	case p.Format == 1:
		if !ok0 || !v0.Del || !okn || !vn.Del {
			res.Violate("meaning-v1-empty-is-deletion", fmt.Sprintf("format 1: an empty value must denote a deletion: k000=%v new1=%v(present %v)", v0, vn, okn), wit)
		}
	default:
		if x.Opt.Native {
			if !ok0 || v0.Del || !okn || vn.Del {
				res.Violate("meaning-v2-empty-stays-live", fmt.Sprintf("format %d: an empty value without the deleted flag must stay a live empty value: k000=%v new1=%v", p.Format, v0, vn), wit)
			}
		}
		if !ok2 || !v2.Del || v2.Val != "" {
			res.Violate("meaning-flag-is-deletion", fmt.Sprintf("format %d: the deleted flag must produce a deletion with an empty value: k002=%v", p.Format, v2), wit)
		}
	}
	av, _ := x.App()
	if _, vis := av["d0"]["k002"]; vis && p.Format >= 2 {
		res.Violate("meaning-deleted-still-visible", "k002 still visible to the application", wit)
	}
	res.NonTrivial = true
	res.Count("meaning_cases", 1)
	res.Sample = map[string]any{"params": p, "k000": fmt.Sprint(v0), "k002": fmt.Sprint(v2)}
}
