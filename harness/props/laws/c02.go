// Package laws holds the monitors for C02 (merge is an order-insensitive,
// monotone join) and C14 (header well-formedness).
package laws

import (
	"bytes"
	"context"
	"fmt"
	"sort"
	"time"

	"github.com/PowerDNS/lmdb-go/lmdb"

	"github.com/PowerDNS/lightningstream/lmdbenv/header"
	"github.com/PowerDNS/lightningstream/lmdbenv/strategy"
	"github.com/PowerDNS/lightningstream/snapshot"
	"github.com/PowerDNS/lightningstream/syncer"

	"verif/bucket"
	"verif/hdr"
	"verif/inst"
	"verif/lmdbx"
	"verif/rng"
	"verif/runner"
	"verif/wire"
)

// Ver is a logical version of one key.
type Ver struct {
	TS  uint64 `json:"ts"`
	Del bool   `json:"del"`
	Val string `json:"val"`
	// F: format version of the snapshot that delivers this version (0 = the configuration's); the mixed family merges
	// entries produced by writers of different format versions into one key
	F uint32 `json:"f,omitempty"`
}

func (v Ver) String() string {
	if v.Del {
		return fmt.Sprintf("(%d,deleted)", v.TS)
	}
	return fmt.Sprintf("(%d,%q)", v.TS, v.Val)
}

// Cfg is one configuration of the merge routine.
type Cfg struct {
	Format    uint32 `json:"format"`
	Cutoff    uint64 `json:"cutoff"`
	DefaultTS uint64 `json:"default_ts"`
	Padding   bool   `json:"padding"`
	Extra     int    `json:"stored_extra_blocks"`         // extension blocks on stored values ("written by others")
	Foreign   uint32 `json:"foreign_flag_bits,omitempty"` // flag bits outside the synced set on incoming entries (newer/foreign writer)
	// DelPayload: incoming deletions (format >= 2) still carry the old application payload behind the flag, as an
	// application with a native schema or a foreign writer may leave it; the stored deletion must be header-only
	DelPayload bool `json:"deleted_entries_carry_payload,omitempty"`
}

const lsTxn = 77 // the transaction id handed to the iterator

// foreignBits is set per case from Cfg.Foreign (cases run one at a time per process).
var foreignBits uint32
var delPayload bool

// stored bytes for a version, as another writer (an application) would store it
func storedBytes(v Ver, cfg Cfg, r *rng.R) []byte {
	var extra []byte
	if cfg.Extra > 0 {
		extra = r.Bytes(8 * cfg.Extra)
	}
	fl := uint8(0)
	val := []byte(v.Val)
	if v.Del {
		fl = 1
		val = nil
	}
	return hdr.Make(v.TS, 5, fl, extra, val)
}

func toKV(v Ver, format uint32) snapshot.KV {
	kv := snapshot.KV{Key: []byte("k"), TimestampNano: v.TS, Flags: foreignBits}
	if v.Del {
		if format >= 2 {
			kv.Flags |= 1
			if delPayload {
				kv.Value = []byte("left-over-payload")
			}
		}
		// format 1: a deletion is an empty value
	} else {
		kv.Value = []byte(v.Val)
	}
	return kv
}

// logical reads stored bytes back with the independent header reader.
func logical(b []byte) (Ver, hdr.H, error) {
	h, app, err := hdr.Read(b)
	if err != nil {
		return Ver{}, h, err
	}
	return Ver{TS: h.TS, Del: h.Deleted(), Val: string(app)}, h, nil
}

// mergeReal calls the real NativeIterator.Merge for a single-entry snapshot DBI.
func mergeReal(stored []byte, kv snapshot.KV, cfg Cfg) ([]byte, error) {
	d := snapshot.NewDBISize(64 + len(kv.Value)) // NewDBI() would allocate 10 MB on the first Append
	d.SetName("d")
	d.Append(kv)
	it, err := syncer.NewNativeIterator(cfg.Format, 1, d, header.Timestamp(cfg.DefaultTS), lsTxn, header.Timestamp(cfg.Cutoff))
	if err != nil {
		return nil, err
	}
	it.HeaderPaddingBlock = cfg.Padding
	if _, err := it.Next(); err != nil {
		return nil, err
	}
	out, err := it.Merge(stored)
	if err != nil {
		return nil, err
	}
	if out == nil {
		return nil, nil
	}
	return append([]byte{}, out...), nil
}

// effective incoming version as the documentation defines it for this config
func effective(v Ver, cfg Cfg) Ver {
	e := v
	if v.F != 0 {
		cfg.Format = v.F
	}
	e.F = 0
	if cfg.Format < 2 && !e.Del && e.Val == "" {
		e.Del = true // version 1: an empty value denotes a deletion
	}
	if e.Del {
		e.Val = ""
	}
	if e.TS == 0 {
		e.TS = cfg.DefaultTS
	}
	return e
}

func isStale(v Ver, cfg Cfg) bool { return v.Del && v.TS < cfg.Cutoff }

type lawsChecker struct {
	cfg Cfg
	res *runner.Result
	r   *rng.R
	// tie table: unordered pair of distinct logical versions with equal ts -> winner
	tie map[string]Ver
}

func pairKey(a, b Ver) string {
	x, y := a.String(), b.String()
	if x > y {
		x, y = y, x
	}
	return x + "|" + y
}

// step merges v onto stored (nil = absent), checks the per-step clauses and returns the new stored bytes.
func (lc *lawsChecker) step(stored []byte, v Ver, ctx string) ([]byte, bool) {
	cfg := lc.cfg
	if v.F != 0 {
		cfg.Format = v.F
	}
	kv := toKV(v, cfg.Format)
	out, err := mergeReal(stored, kv, cfg)
	wit := map[string]any{"cfg": cfg, "context": ctx, "incoming": v, "stored_hex": fmt.Sprintf("%x", stored), "result_hex": fmt.Sprintf("%x", out)}
	if err != nil {
		lc.res.Violate("merge-error", fmt.Sprintf("%s: Merge returned an error for well-formed input: %v", ctx, err), wit)
		return stored, false
	}
	lc.res.Count("merges", 1)
	ev := effective(v, cfg)
	if stored == nil {
		if out == nil {
			if !isStale(ev, cfg) {
				lc.res.Violate("absent-incoming-dropped", fmt.Sprintf("%s: incoming %v onto an absent key produced no entry (cutoff %d)", ctx, v, cfg.Cutoff), wit)
				return nil, false
			}
			lc.res.Count("stale_marker_not_added", 1)
			return nil, true
		}
		if isStale(ev, cfg) {
			lc.res.Violate("stale-marker-added", fmt.Sprintf("%s: deletion %v older than the cutoff %d was created for an absent key", ctx, v, cfg.Cutoff), wit)
			return out, false
		}
		got, h, err := logical(out)
		if err != nil {
			lc.res.Violate("result-unreadable", fmt.Sprintf("%s: result is not a readable value: %v", ctx, err), wit)
			return out, false
		}
		if got != ev {
			lc.res.Violate("absent-wrong-content", fmt.Sprintf("%s: incoming %v (effective %v) onto an absent key stored %v", ctx, v, ev, got), wit)
			return out, false
		}
		lc.checkWritten(out, h, ctx, wit)
		return out, true
	}
	sv, _, err := logical(stored)
	if err != nil {
		lc.res.Verdict = runner.Inconclusive
		lc.res.Msg = "harness stored value unreadable"
		return stored, false
	}
	if out == nil {
		lc.res.Violate("stored-entry-removed", fmt.Sprintf("%s: merging %v onto %v removed the entry", ctx, v, sv), wit)
		return nil, false
	}
	got, h, err := logical(out)
	if err != nil {
		lc.res.Violate("result-unreadable", fmt.Sprintf("%s: result is not a readable value: %v", ctx, err), wit)
		return out, false
	}
	if got.Del && got.Val != "" {
		lc.res.Violate("deleted-with-value", fmt.Sprintf("%s: result %v is deleted but carries a value", ctx, got), wit)
	}
	if got.TS < sv.TS {
		lc.res.Violate("moved-backwards", fmt.Sprintf("%s: merging %v onto %v stored the older %v", ctx, v, sv, got), wit)
		return out, false
	}
	untouched := bytes.Equal(out, stored)
	captureUse := v.TS == 0 && cfg.DefaultTS != 0
	switch {
	case captureUse:
		// shadow-capture use: an unchanged value keeps its stamp (bytes untouched),
		// a changed one gets the default stamp unless the stored one is newer
		same := !sv.Del && !ev.Del && sv.Val == ev.Val
		if same && !untouched {
			lc.res.Violate("capture-restamped-unchanged", fmt.Sprintf("%s: capturing the unchanged value %v rewrote the stored %v as %v", ctx, v, sv, got), wit)
		}
		if !same && !untouched && got != ev {
			lc.res.Violate("capture-wrong-content", fmt.Sprintf("%s: capture of %v onto %v stored %v, expected %v or untouched", ctx, v, sv, got, ev), wit)
		}
		if !same && untouched && ev.TS > sv.TS && !(sv.Del && ev.Val == "") {
			lc.res.Violate("capture-change-lost", fmt.Sprintf("%s: changed value %v (stamp %d) was not captured over the older %v", ctx, v, ev.TS, sv), wit)
		}
	case ev.TS < sv.TS:
		if !untouched {
			lc.res.Violate("older-incoming-touched-bytes", fmt.Sprintf("%s: incoming %v is older than stored %v but the stored bytes changed (now %v)", ctx, v, sv, got), wit)
		}
	case ev.TS > sv.TS:
		if got != ev {
			lc.res.Violate("newer-incoming-lost", fmt.Sprintf("%s: incoming %v is newer than stored %v but the result is %v", ctx, v, sv, got), wit)
		}
	default: // equal timestamps
		if ev == sv {
			if !untouched {
				lc.res.Violate("identical-incoming-touched-bytes", fmt.Sprintf("%s: incoming %v is identical to the stored version but the stored bytes changed", ctx, v), wit)
			}
		} else {
			if got != ev && got != sv {
				lc.res.Violate("tie-invented-version", fmt.Sprintf("%s: tie between stored %v and incoming %v produced %v", ctx, sv, ev, got), wit)
			} else {
				if got == sv && !untouched {
					lc.res.Violate("tie-loser-touched-bytes", fmt.Sprintf("%s: incoming %v lost the tie against %v but the stored bytes changed", ctx, v, sv), wit)
				}
				k := pairKey(sv, ev)
				if w, ok := lc.tie[k]; ok && w != got {
					sig := "tie-order-dependent"
					if sv.TS == ev.TS && sv.Val == "" && ev.Val == "" && sv.Del != ev.Del {
						sig = "tie-equal-ts-deleted-vs-live-empty"
					}
					lc.res.Violate(sig, fmt.Sprintf("%s: tie between %v and %v was decided for %v here and for %v in another order/configuration", ctx, sv, ev, got, w), wit)
				} else {
					lc.tie[k] = got
				}
				lc.res.Count("ties_decided", 1)
			}
		}
	}
	if !untouched {
		lc.checkWritten(out, h, ctx, wit)
	} else {
		lc.res.Count("stored_bytes_untouched", 1)
	}
	return out, true
}

// checkWritten: a value produced by Lightning Stream must carry a well-formed header (C14 clause, also asserted here).
func (lc *lawsChecker) checkWritten(out []byte, h hdr.H, ctx string, wit map[string]any) {
	if _, _, err := hdr.WellFormedLS(out, lsTxn); err != nil {
		lc.res.Violate("written-header-malformed", fmt.Sprintf("%s: value written by the merge is not well-formed: %v", ctx, err), wit)
		return
	}
	wantExtra := 0
	if lc.cfg.Padding {
		wantExtra = 1
	}
	if h.NumExtra != wantExtra {
		lc.res.Violate("written-header-extension-count", fmt.Sprintf("%s: written value has %d extension blocks, expected %d (header_extra_padding_block=%v)", ctx, h.NumExtra, wantExtra, lc.cfg.Padding), wit)
	} else if wantExtra == 1 && !bytes.Equal(h.Extra, make([]byte, 8)) {
		lc.res.Violate("written-header-padding-not-zero", fmt.Sprintf("%s: padding block is %x", ctx, h.Extra), wit)
	}
	lc.res.Count("written_values_checked", 1)
}

// fold merges the versions in order, starting from an absent key.
func (lc *lawsChecker) fold(vs []Ver, ctx string) ([]byte, bool) {
	var st []byte
	ok := true
	for _, v := range vs {
		var o bool
		st, o = lc.step(st, v, ctx)
		ok = ok && o
	}
	return st, ok
}

// allowedResults: the results the retention exception permits for a set.
func allowedResults(vs []Ver, cfg Cfg, tie map[string]Ver) map[string]bool {
	evs := make([]Ver, len(vs))
	var staleIdx []int
	for i, v := range vs {
		evs[i] = effective(v, cfg)
		if isStale(evs[i], cfg) {
			staleIdx = append(staleIdx, i)
		}
	}
	out := map[string]bool{}
	for mask := 0; mask < 1<<len(staleIdx); mask++ {
		drop := map[int]bool{}
		for b, i := range staleIdx {
			if mask&(1<<b) != 0 {
				drop[i] = true
			}
		}
		var best *Ver
		for i := range evs {
			if drop[i] {
				continue
			}
			v := evs[i]
			if best == nil || v.TS > best.TS {
				best = &v
			} else if v.TS == best.TS && v != *best {
				if w, ok := tie[pairKey(*best, v)]; ok {
					best = &w
				} else {
					// undecided tie: accept both
					out[v.String()] = true
				}
			}
		}
		if best == nil {
			out["<none>"] = true
		} else {
			out[best.String()] = true
		}
	}
	return out
}

func describe(b []byte) string {
	if b == nil {
		return "<none>"
	}
	v, _, err := logical(b)
	if err != nil {
		return "<unreadable>"
	}
	return v.String()
}

func permutations(n int) [][]int {
	if n == 1 {
		return [][]int{{0}}
	}
	var out [][]int
	for _, p := range permutations(n - 1) {
		for i := 0; i <= len(p); i++ {
			q := append(append(append([]int{}, p[:i]...), n-1), p[i:]...)
			out = append(out, q)
		}
	}
	return out
}

func domainVersions() []Ver {
	var vs []Ver
	// (1<<63)+3 lies 2^63 or more above the small stamps: a signed difference of two stamps wraps there (seed C02j)
	for _, ts := range []uint64{0, 1, 2, 3, 1 << 62, 1<<63 + 3} {
		for _, v := range []Ver{{Val: ""}, {Val: "a"}, {Val: "b"}, {Val: "ab"}, {Del: true}} {
			v.TS = ts
			vs = append(vs, v)
		}
	}
	return vs
}

type c02Params struct {
	Cfg    Cfg    `json:"cfg"`
	Part   string `json:"part"` // laws | update | random
	Seed   uint64 `json:"seed,omitempty"`
	Count  int    `json:"count,omitempty"`
	Slice  int    `json:"slice,omitempty"` // laws: index of the first version of the triples handled by this case
	Slices int    `json:"slices,omitempty"`
}

func c02Cases(tier string, seed int64, extras []int, idPrefix string, foreign ...uint32) []runner.Case {
	if len(foreign) == 0 {
		foreign = []uint32{0}
	}
	var cs []runner.Case
	r := rng.New(uint64(seed) ^ 0xC02)
	for _, ex := range extras {
		for _, f := range []uint32{1, 2, 3} {
			for _, cut := range []uint64{0, 2, 3, 1 << 63} {
				for _, dts := range []uint64{0, 2} {
					if dts != 0 && f != 3 {
						continue // the capture use always runs with the current format version
					}
					for _, pad := range []bool{false, true} {
						fb := foreign[(int(f)+int(cut%7)+int(dts)+ex)%len(foreign)]
						if f < 2 {
							fb = 0 // the flags field exists since format version 2
						}
						cfg := Cfg{Format: f, Cutoff: cut, DefaultTS: dts, Padding: pad, Extra: ex, Foreign: fb}
						name := fmt.Sprintf("%sf%d-c%d-d%d-p%v-x%d-g%x", idPrefix, f, cut, dts, pad, ex, fb)
						for sl := 0; sl < 5; sl++ {
							cs = append(cs, runner.MkCase("laws", fmt.Sprintf("%s-s%d", name, sl), c02Params{Cfg: cfg, Part: "laws", Slice: sl, Slices: 5}))
						}
						cs = append(cs, runner.MkCase("update", name, c02Params{Cfg: cfg, Part: "update"}))
						if cut == 0 && dts == 0 && ex == 0 {
							cs = append(cs, runner.MkCase("loadonce", name, c02Params{Cfg: cfg, Part: "loadonce"}))
						}
					}
				}
			}
		}
	}
	// mixed producers: format version per entry, not per configuration
	for _, cut := range []uint64{0, 2} {
		for _, pad := range []bool{false, true} {
			cfg := Cfg{Format: 3, Cutoff: cut, Padding: pad, Extra: extras[0]}
			for sl := 0; sl < 6; sl++ {
				cs = append(cs, runner.MkCase("mixed", fmt.Sprintf("%smixed-c%d-p%v-x%d-s%d", idPrefix, cut, pad, extras[0], sl), c02Params{Cfg: cfg, Part: "mixed", Slice: sl, Slices: 6}))
			}
		}
	}
	nr, cnt := 16, 2000
	if tier == "thorough" {
		nr, cnt = 2000, 5000
	}
	for i := 0; i < nr; i++ {
		cfg := Cfg{Format: rng.Pick(r, uint32(1), 2, 3, 3), Cutoff: rng.Pick(r, uint64(0), 0, 1700000000000000000), DefaultTS: 0, Padding: r.Bool(), Extra: extras[r.Intn(len(extras))]}
		cs = append(cs, runner.MkCase("random", fmt.Sprintf("%s%d", idPrefix, i), c02Params{Cfg: cfg, Part: "random", Seed: r.U64(), Count: cnt}))
	}
	return cs
}

func C02() *runner.Property {
	return &runner.Property{
		ID:    "C02",
		Level: "exploration",
		Rule: "the real NativeIterator.Merge (and strategy.Update inside a real LMDB write transaction) is driven over the complete small domain: stored in {absent} + V, incoming in V, all pairs and all triples in all 6 orders, " +
			"V = timestamps {0,1,2,3,2^62} x {live \"\", \"a\", \"b\", \"ab\", deleted}; format versions 1-3 per configuration and (family mixed) per entry - an old format-1 producer next to current ones, all pairs with equal timestamps and all triples with a tie; stale-marker cutoffs {0,2,3,2^63}; default timestamp {0,2}; header padding on/off; plus seeded random triples with real-clock timestamps and long values. " +
			"Oracles: per step (never backwards, non-winning => stored bytes untouched, newer wins, ties consistent across all orders via a tie table, stale markers not created), per set (all orders give the same content, up to the documented retention exception). " +
			"Non-trivial = the case evaluated triples of pairwise distinct versions; distinct by configuration.",
		Assumptions: []string{
			"versions are well-formed (a deleted entry carries no value)",
			"with a default timestamp (shadow capture use) only the per-step clauses are asserted: capture stamps are assigned by time, order laws do not apply",
			"the tie-break itself is not prescribed: any fixed, order-independent choice is accepted",
		},
		BatchSize:   6,
		CaseTimeout: 300e9,
		Cases: func(tier string, seed int64) []runner.Case {
			return c02Cases(tier, seed, []int{0}, "")
		},
		Run: runC02,
	}
}

func runC02(c runner.Case, env *runner.Env) (res runner.Result) {
	var p c02Params
	runner.Params(c, &p)
	foreignBits = p.Cfg.Foreign
	delPayload = p.Cfg.DelPayload
	lc := &lawsChecker{cfg: p.Cfg, res: &res, r: rng.New(p.Seed + 1), tie: map[string]Ver{}}
	res.Key = c.ID
	switch p.Part {
	case "laws":
		runLaws(lc, p, &res)
	case "update":
		runUpdate(lc, p, env, &res)
	case "random":
		runRandom(lc, p, &res)
	case "loadonce":
		runLoadOnce(lc, p, env, &res)
	case "mixed":
		runMixed(lc, p, &res)
	}
	if res.Sample == nil {
		res.Sample = map[string]any{"case": c.ID, "cfg": p.Cfg, "merges": res.Obs["merges"], "ties_decided": res.Obs["ties_decided"]}
	}
	return
}

func (lc *lawsChecker) checkSet(vs []Ver, res *runner.Result) {
	cfg := lc.cfg
	n := len(vs)
	results := map[string][]int{}
	var order []string
	for _, perm := range permutations(n) {
		seq := make([]Ver, n)
		for i, pi := range perm {
			seq[i] = vs[pi]
		}
		st, ok := lc.fold(seq, fmt.Sprintf("order %v of %v", perm, vs))
		if !ok {
			return
		}
		d := describe(st)
		if _, seen := results[d]; !seen {
			order = append(order, d)
		}
		results[d] = perm
	}
	allowed := allowedResults(vs, cfg, lc.tie)
	for _, d := range order {
		if !allowed[d] {
			sig := "order-dependent-result"
			// classify the known full-tie family
			for i := range vs {
				for j := range vs {
					a, b := effective(vs[i], cfg), effective(vs[j], cfg)
					if a.TS == b.TS && a.Val == "" && b.Val == "" && a.Del != b.Del {
						sig = "tie-equal-ts-deleted-vs-live-empty"
					}
				}
			}
			res.Violate(sig, fmt.Sprintf("merging the set %v in order %v gives %s; the orders together gave %v; allowed by last-writer-wins (with the retention exception for cutoff %d): %v", vs, results[d], d, order, cfg.Cutoff, keys(allowed)),
				map[string]any{"cfg": cfg, "set": vs, "results_by_order": results})
			return
		}
	}
	if len(order) > 1 {
		res.Count("sets_with_retention_exception", 1)
	}
	// idempotence: merging any element again changes nothing
	if n <= 2 {
		st, _ := lc.fold(vs, "idempotence base")
		for _, v := range vs {
			st2, _ := lc.step(st, v, fmt.Sprintf("idempotence: %v again onto the result of %v", v, vs))
			if st != nil && st2 != nil && !bytes.Equal(st, st2) && !(isStale(effective(v, cfg), cfg)) {
				res.Violate("not-idempotent", fmt.Sprintf("merging %v a second time changed the stored bytes (set %v)", v, vs), map[string]any{"cfg": cfg, "set": vs})
			}
		}
	}
}

func keys(m map[string]bool) []string {
	var k []string
	for s := range m {
		k = append(k, s)
	}
	sort.Strings(k)
	return k
}

func runLaws(lc *lawsChecker, p c02Params, res *runner.Result) {
	V := domainVersions()
	cfg := p.Cfg
	if cfg.DefaultTS != 0 {
		// per-step clauses only, over all (stored, incoming) pairs incl. absent
		if p.Slice != 0 {
			return
		}
		for _, v := range V {
			if v.Del {
				continue // captured entries come from the application DBI: never deletions
			}
			lc.step(nil, v, "absent")
			for _, s := range V {
				es := effective(s, Cfg{Format: 3})
				if es.TS == 0 {
					continue // a stored entry always has a stamp in capture use
				}
				lc.step(storedBytes(es, cfg, lc.r), v, "pair")
				res.Count("pairs", 1)
			}
		}
		res.NonTrivial = true
		return
	}
	// decide all ties first (pairs in both orders), then triples
	if p.Slice == 0 {
		for i, a := range V {
			for j, b := range V {
				if i < j {
					lc.checkSet([]Ver{a, b}, res)
					res.Count("pairs", 1)
				}
			}
			lc.checkSet([]Ver{a}, res)
		}
	} else {
		// the tie table must be known before triples are judged
		for i, a := range V {
			for j, b := range V {
				if i < j && effective(a, cfg).TS == effective(b, cfg).TS {
					lc.fold([]Ver{a, b}, "tie discovery")
					lc.fold([]Ver{b, a}, "tie discovery")
				}
			}
		}
	}
	for i := p.Slice; i < len(V); i += p.Slices {
		for j := i; j < len(V); j++ {
			for k := j; k < len(V); k++ {
				set := []Ver{V[i], V[j], V[k]}
				lc.checkSet(set, res)
				res.Count("triples", 1)
				if V[i] != V[j] && V[j] != V[k] {
					res.NonTrivial = true
					res.Count("triples_pairwise_distinct", 1)
				} else {
					res.Count("triples_with_repeated_version", 1)
				}
			}
		}
	}
	// stored values carrying extension blocks written by others: decisions must not depend on them
	if cfg.Extra > 0 {
		plain := cfg
		plain.Extra = 0
		for _, s := range V {
			for _, v := range V {
				a, _ := mergeReal(storedBytes(s, cfg, lc.r), toKV(v, cfg.Format), cfg)
				b, _ := mergeReal(storedBytes(s, plain, lc.r), toKV(v, cfg.Format), cfg)
				if describe(a) != describe(b) {
					res.Violate("extension-blocks-change-decision", fmt.Sprintf("stored %v with %d extension blocks merged with %v gives %s, without blocks %s", s, cfg.Extra, v, describe(a), describe(b)), map[string]any{"cfg": cfg})
				}
			}
		}
	}
}

// runMixed: the versions of one key arrive in snapshots of different format versions (an old producer next to current
// ones): every pair in both orders, every triple in all six, must end in the same content.
func runMixed(lc *lawsChecker, p c02Params, res *runner.Result) {
	var V []Ver
	for _, v := range domainVersions() {
		for _, f := range []uint32{1, 2, 3} {
			if f == 1 && !v.Del && v.Val == "" {
				continue // format version 1 cannot express a live empty value
			}
			v.F = f
			V = append(V, v)
		}
	}
	cfg := lc.cfg
	for i, a := range V {
		for j, b := range V {
			if i < j && effective(a, cfg).TS == effective(b, cfg).TS {
				if p.Slice == 0 {
					lc.checkSet([]Ver{a, b}, res)
					res.Count("pairs", 1)
				} else {
					lc.fold([]Ver{a, b}, "tie discovery")
					lc.fold([]Ver{b, a}, "tie discovery")
				}
			}
		}
	}
	for i := p.Slice; i < len(V); i += p.Slices {
		for j := i; j < len(V); j++ {
			for k := j; k < len(V); k++ {
				if V[i].F == V[j].F && V[j].F == V[k].F {
					continue // single-format sets are the laws family
				}
				a, b, c := effective(V[i], cfg), effective(V[j], cfg), effective(V[k], cfg)
				if a.TS != b.TS && b.TS != c.TS && a.TS != c.TS {
					continue // no tie: the format plays no role in the decision, covered by the pairs
				}
				lc.checkSet([]Ver{V[i], V[j], V[k]}, res)
				res.Count("triples", 1)
				if a != b && b != c && a != c {
					res.NonTrivial = true
					res.Count("triples_pairwise_distinct", 1)
				}
			}
		}
	}
	res.Count("mixed_format_versions_in_domain", int64(len(V)))
}

func runRandom(lc *lawsChecker, p c02Params, res *runner.Result) {
	r := rng.New(p.Seed)
	base := uint64(1700000000000000000)
	for i := 0; i < p.Count; i++ {
		n := 2 + r.Intn(2)
		var set []Ver
		for k := 0; k < n; k++ {
			v := Ver{TS: base + uint64(r.Intn(3))*1000 + uint64(r.Intn(2))}
			if r.Chance(1, 8) {
				v.TS = base - 400*24*3600*1e9 // older than any cutoff used
			}
			switch r.Intn(4) {
			case 0:
				v.Del = true
			case 1:
				v.Val = string(r.Bytes(rng.Pick(r, 0, 1, 2, 300, 5000)))
			default:
				v.Val = rng.Pick(r, "", "x", "y", "xy")
			}
			set = append(set, v)
		}
		lc.checkSet(set, res)
		res.Count("random_sets", 1)
		if set[0] != set[1] {
			res.NonTrivial = true
		}
	}
}

// runUpdate drives strategy.Update in a real write transaction over all
// (stored, incoming) pairs at once, and a second time with only non-winning
// incoming versions, where no LMDB transaction may be recorded at all.
func runUpdate(lc *lawsChecker, p c02Params, env *runner.Env, res *runner.Result) {
	cfg := p.Cfg
	V := domainVersions()
	e, err := lmdbx.Open(env.Dir("c02"), 64<<20)
	if err != nil {
		res.Verdict, res.Msg = runner.Inconclusive, err.Error()
		return
	}
	defer e.Close()
	type pair struct {
		key    string
		stored []byte
		in     Ver
	}
	var all, losing []pair
	for si := -1; si < len(V); si++ {
		for vi, v := range V {
			pr := pair{key: fmt.Sprintf("k%03d-%03d", si+1, vi), in: v}
			if cfg.DefaultTS != 0 && v.Del {
				continue
			}
			if si >= 0 {
				sv := effective(V[si], Cfg{Format: 3})
				if cfg.DefaultTS != 0 && sv.TS == 0 {
					continue
				}
				pr.stored = storedBytes(sv, cfg, lc.r)
				ev := effective(v, cfg)
				captureSame := v.TS == 0 && cfg.DefaultTS != 0 && !sv.Del && !ev.Del && sv.Val == ev.Val
				if ev.TS < sv.TS || ev == sv || captureSame {
					losing = append(losing, pr)
				}
			} else if isStale(effective(v, cfg), cfg) {
				losing = append(losing, pr)
			}
			all = append(all, pr)
		}
	}
	run := func(prs []pair, dbiName string, mustBeNoop bool) {
		// application stores the stored versions
		_, err := lmdbx.Update(e, func(txn *lmdb.Txn) error {
			for _, pr := range prs {
				if pr.stored != nil {
					if err := lmdbx.Put(txn, dbiName, 0, []byte(pr.key), pr.stored); err != nil {
						return err
					}
				}
			}
			_, err := txn.OpenDBI(dbiName, lmdb.Create)
			return err
		})
		if err != nil {
			res.Verdict, res.Msg = runner.Inconclusive, err.Error()
			return
		}
		before, _, _ := lmdbx.DumpEnv(e)
		lastBefore := lmdbx.LastTxnID(e)
		d := snapshot.NewDBISize(1 << 16)
		d.SetName(dbiName)
		for _, pr := range prs {
			kv := toKV(pr.in, cfg.Format)
			kv.Key = []byte(pr.key)
			d.Append(kv)
		}
		var lsID int64
		err = e.Update(func(txn *lmdb.Txn) error {
			lsID = int64(txn.ID())
			dbi, err := txn.OpenDBI(dbiName, 0)
			if err != nil {
				return err
			}
			it, err := syncer.NewNativeIterator(cfg.Format, 1, d, header.Timestamp(cfg.DefaultTS), header.TxnID(txn.ID()), header.Timestamp(cfg.Cutoff))
			if err != nil {
				return err
			}
			it.HeaderPaddingBlock = cfg.Padding
			return strategy.Update(txn, dbi, it)
		})
		if err != nil {
			res.Violate("update-error", "strategy.Update with NativeIterator failed on well-formed input: "+err.Error(), map[string]any{"cfg": cfg})
			return
		}
		after, _, _ := lmdbx.DumpEnv(e)
		lastAfter := lmdbx.LastTxnID(e)
		res.Count("update_transactions", 1)
		if mustBeNoop {
			if lastAfter != lastBefore {
				res.Violate("noop-merge-committed-transaction", fmt.Sprintf("merging only non-winning versions recorded an LMDB transaction (LastTxnID %d -> %d): %s", lastBefore, lastAfter, lmdbx.Diff(before, after)), map[string]any{"cfg": cfg, "pairs": len(prs)})
			}
			if df := lmdbx.Diff(before, after); df != "" {
				res.Violate("noop-merge-changed-bytes", "merging only non-winning versions changed stored bytes: "+df, map[string]any{"cfg": cfg})
			}
			res.Count("noop_merge_pairs", int64(len(prs)))
			return
		}
		// differential: what Update left must be what Merge decides per key
		got := map[string][]byte{}
		for _, kv := range after[dbiName].KVs {
			got[string(kv.K)] = kv.V
		}
		for _, pr := range prs {
			exp, err := mergeReal(pr.stored, toKV(pr.in, cfg.Format), cfg)
			if err != nil {
				continue
			}
			g := got[pr.key]
			// the transaction id field of written values is the real LS transaction here
			if exp != nil && !bytes.Equal(exp, pr.stored) {
				h, _, _ := hdr.Read(g)
				if g != nil && h.TxnID != uint64(lsID) {
					res.Violate("written-txnid-field", fmt.Sprintf("value written by LS transaction %d carries transaction id %d", lsID, h.TxnID), map[string]any{"cfg": cfg, "key": pr.key})
				}
			}
			if describe(g) != describe(exp) || (bytes.Equal(exp, pr.stored) && !bytes.Equal(g, pr.stored)) {
				res.Violate("update-differs-from-merge", fmt.Sprintf("key %s: strategy.Update left %s (untouched=%v), Merge decides %s (untouched=%v)", pr.key, describe(g), bytes.Equal(g, pr.stored), describe(exp), bytes.Equal(exp, pr.stored)), map[string]any{"cfg": cfg, "incoming": pr.in})
			}
			res.Count("update_keys_compared", 1)
		}
	}
	run(all, "all", false)
	run(losing, "losing", true)
	// One DBI message that lists the same key several times (legal input for the point-update strategy): what is
	// left must be the fold of the merges in listing order, whether the target DBI starts empty or not.
	runMulti := func(dbiName string, startEmpty bool) {
		if cfg.DefaultTS != 0 {
			return
		}
		_, err := lmdbx.Update(e, func(txn *lmdb.Txn) error {
			if !startEmpty {
				if err := lmdbx.Put(txn, dbiName, 0, []byte("zzz-unrelated"), storedBytes(Ver{TS: 5, Val: "u"}, cfg, lc.r)); err != nil {
					return err
				}
			}
			_, err := txn.OpenDBI(dbiName, lmdb.Create)
			return err
		})
		if err != nil {
			res.Verdict, res.Msg = runner.Inconclusive, err.Error()
			return
		}
		d := snapshot.NewDBISize(1 << 16)
		d.SetName(dbiName)
		type multi struct {
			key string
			vs  []Ver
		}
		var ms []multi
		for i := 0; i < 80; i++ {
			m := multi{key: fmt.Sprintf("m%03d", i)}
			for k := 0; k < 2+lc.r.Intn(2); k++ {
				m.vs = append(m.vs, V[lc.r.Intn(len(V))])
			}
			ms = append(ms, m)
			for _, v := range m.vs {
				kv := toKV(v, cfg.Format)
				kv.Key = []byte(m.key)
				d.Append(kv)
			}
		}
		err = e.Update(func(txn *lmdb.Txn) error {
			dbi, err := txn.OpenDBI(dbiName, 0)
			if err != nil {
				return err
			}
			it, err := syncer.NewNativeIterator(cfg.Format, 1, d, 0, header.TxnID(txn.ID()), header.Timestamp(cfg.Cutoff))
			if err != nil {
				return err
			}
			it.HeaderPaddingBlock = cfg.Padding
			return strategy.Update(txn, dbi, it)
		})
		if err != nil {
			res.Violate("update-error", "strategy.Update with a DBI message that repeats keys failed: "+err.Error(), map[string]any{"cfg": cfg})
			return
		}
		after, _, _ := lmdbx.DumpEnv(e)
		got := map[string][]byte{}
		for _, kv := range after[dbiName].KVs {
			got[string(kv.K)] = kv.V
		}
		for _, m := range ms {
			var exp []byte
			for _, v := range m.vs {
				if o, err := mergeReal(exp, toKV(v, cfg.Format), cfg); err == nil {
					exp = o
				}
			}
			if describe(got[m.key]) != describe(exp) {
				res.Violate("repeated-key-not-merged-in-order", fmt.Sprintf("DBI message lists %s with versions %v (target DBI empty at start: %v): Update left %s, merging them in listing order gives %s", m.key, m.vs, startEmpty, describe(got[m.key]), describe(exp)), map[string]any{"cfg": cfg})
			}
			res.Count("repeated_key_folds_compared", 1)
		}
	}
	runMulti("multi-empty", true)
	runMulti("multi-nonempty", false)
	res.NonTrivial = true
}

// runLoadOnce: the same pair domain through the real Syncer.LoadOnce of a native instance (sweeper off): the call
// site must hand the merge routine no default timestamp, no cutoff and the configured padding - what LoadOnce
// leaves per key must be what Merge decides for (stored, incoming).
func runLoadOnce(lc *lawsChecker, p c02Params, env *runner.Env, res *runner.Result) {
	cfg := p.Cfg
	V := domainVersions()
	b := bucket.New()
	x, err := inst.New(env.Dir("c02lo"), b, "db", "a", inst.Opt{Native: true, Padding: cfg.Padding})
	if err != nil {
		res.Verdict, res.Msg = runner.Inconclusive, err.Error()
		return
	}
	defer x.Close()
	type pair struct {
		key    string
		stored []byte
		in     Ver
	}
	var prs []pair
	for si := -1; si < len(V); si++ {
		for vi, v := range V {
			pr := pair{key: fmt.Sprintf("k%03d-%03d", si+1, vi), in: v}
			if si >= 0 {
				pr.stored = storedBytes(effective(V[si], Cfg{Format: 3}), cfg, lc.r)
			}
			prs = append(prs, pr)
		}
	}
	_, err = lmdbx.Update(x.Env, func(txn *lmdb.Txn) error {
		for _, pr := range prs {
			if pr.stored != nil {
				if err := lmdbx.Put(txn, "d", 0, []byte(pr.key), pr.stored); err != nil {
					return err
				}
			}
		}
		_, err := txn.OpenDBI("d", lmdb.Create)
		return err
	})
	if err != nil {
		res.Verdict, res.Msg = runner.Inconclusive, err.Error()
		return
	}
	snap := &wire.Snap{FormatVersion: cfg.Format, CompatVersion: 1, Meta: wire.Meta{DatabaseName: "db", InstanceID: "r", GenerationID: "GX", TimestampNano: 1}}
	d := wire.DBI{Name: "d"}
	for _, pr := range prs {
		kv := toKV(pr.in, cfg.Format)
		d.Entries = append(d.Entries, wire.KV{Key: []byte(pr.key), Val: kv.Value, TS: kv.TimestampNano, Flags: kv.Flags})
	}
	snap.DBIs = []wire.DBI{d}
	if _, _, err := x.LoadSnap(context.Background(), snap, "r", time.Now(), 0); err != nil {
		res.Violate("loadonce-error", "LoadOnce failed on well-formed input: "+err.Error(), map[string]any{"cfg": cfg})
		return
	}
	after, _, _ := lmdbx.DumpEnv(x.Env)
	got := map[string][]byte{}
	if dd := after["d"]; dd != nil {
		for _, kv := range dd.KVs {
			got[string(kv.K)] = kv.V
		}
	}
	for _, pr := range prs {
		exp, err := mergeReal(pr.stored, toKV(pr.in, cfg.Format), cfg)
		if err != nil {
			continue
		}
		g := got[pr.key]
		res.Count("loadonce_keys_compared", 1)
		if describe(g) != describe(exp) || (bytes.Equal(exp, pr.stored) && !bytes.Equal(g, pr.stored)) {
			res.Violate("loadonce-differs-from-merge", fmt.Sprintf("key %s: stored %s incoming %v: LoadOnce left %s (untouched=%v), the merge routine decides %s (untouched=%v)", pr.key, describe(pr.stored), pr.in, describe(g), bytes.Equal(g, pr.stored), describe(exp), bytes.Equal(exp, pr.stored)), map[string]any{"cfg": cfg, "incoming": pr.in})
		}
		if g != nil && !bytes.Equal(g, pr.stored) {
			h, _, _ := hdr.Read(g)
			lc.checkWritten(withTxn(g, lsTxn), h, "loadonce "+pr.key, map[string]any{"cfg": cfg})
		}
	}
	res.NonTrivial = true
}

// withTxn returns a copy of the stored value with the transaction id field replaced (the real transaction id is
// checked elsewhere; checkWritten compares with the constant used for direct Merge calls).
func withTxn(v []byte, txn uint64) []byte {
	c := append([]byte{}, v...)
	if len(c) >= 16 {
		for i := 0; i < 8; i++ {
			c[8+i] = byte(txn >> (8 * uint(7-i)))
		}
	}
	return c
}
