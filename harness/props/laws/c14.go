package laws

import (
	"bytes"
	"encoding/json"
	"fmt"
	"github.com/PowerDNS/lightningstream/snapshot"
	"github.com/PowerDNS/lightningstream/syncer"

	"github.com/PowerDNS/lightningstream/lmdbenv/header"

	"verif/hdr"
	"verif/props/mergep"
	"verif/rng"
	"verif/runner"
)

type c14Params struct {
	Part  string       `json:"part"` // counts | diff | putbasic | merge
	From  int          `json:"from,omitempty"`
	To    int          `json:"to,omitempty"`
	Seed  uint64       `json:"seed,omitempty"`
	Count int          `json:"count,omitempty"`
	C02   *c02Params   `json:"c02,omitempty"`
	Hist  *mergep.Hist `json:"hist,omitempty"`
}

func C14() *runner.Property {
	return &runner.Property{
		ID:    "C14",
		Level: "exploration",
		Rule: "(1) all extension counts 0..65535 (exhaustive) x random timestamp/txn id/flag byte/value: Header.Bytes() is read back by header.Parse/Skip and by an independent reader of the documented layout, fields and application value must be exact; " +
			"(2) differential Parse/Skip vs the independent reader on random and near-valid byte strings (lengths 0-60+, version byte != 0, counts exceeding the length by one block): same accept/reject, same split; (3) PutBasic on a 0xFF-filled buffer; " +
			"(5) write monitor on direct-driven real instances (see C01): every value a real LoadOnce changed in a native or shadow DBI is read by the independent reader and must carry the id of that LMDB transaction and the configured number of padding blocks; " +
			"(4) every value the real merge routine writes over the C02 domain, with stored values carrying 1-3 extension blocks written by others and header padding on/off, is checked by the independent reader (version 0, reserved 0, flags within the synced set, " +
			"transaction id of the writing transaction, extension count, deleted => empty value - also when the incoming deleted snapshot entry still carries a payload behind the flag), and keep/replace decisions must not depend on the blocks. Non-trivial = distinct header images / distinct configurations.",
		Assumptions: []string{"the independent reader hdr.Read is written from docs/schema-native.md"},
		BatchSize:   4,
		CaseTimeout: 300e9,
		Cases: func(tier string, seed int64) []runner.Case {
			var cs []runner.Case
			r := rng.New(uint64(seed) ^ 0xC14)
			for from := 0; from < 65536; from += 4096 {
				cs = append(cs, runner.MkCase("counts", fmt.Sprint(from), c14Params{Part: "counts", From: from, To: from + 4096, Seed: r.U64()}))
			}
			nd, cnt := 16, 60000
			if tier == "thorough" {
				nd, cnt = 64, 250000
			}
			for i := 0; i < nd; i++ {
				cs = append(cs, runner.MkCase("diff", fmt.Sprint(i), c14Params{Part: "diff", Seed: r.U64(), Count: cnt}))
			}
			cs = append(cs, runner.MkCase("putbasic", "0", c14Params{Part: "putbasic", Seed: r.U64(), Count: 20000}))
			for _, c := range c02Cases(tier, seed, []int{1, 2, 3}, "x", 0x80, 0xfffffffe, 0x02, 0) {
				var p c02Params
				runner.Params(c, &p)
				if p.Part == "random" && p.Count > 1000 {
					p.Count = 1000
				}
				// the merge domain is sliced 5-fold in C02; for C14 slice 0 and 3 suffice per configuration
				if p.Part == "laws" && p.Slice != 0 && p.Slice != 3 {
					continue
				}
				cs = append(cs, runner.MkCase("merge-"+c.Family, c.ID, c14Params{Part: "merge", C02: &p}))
				// deleted snapshot entries that still carry a payload: what is stored must be a header-only marker
				if p.Cfg.Format >= 2 && p.Part == "laws" && p.Slice == 0 {
					q := p
					q.Cfg.DelPayload = true
					cs = append(cs, runner.MkCase("merge-delpayload", c.ID, c14Params{Part: "delpayload", C02: &q}))
				}
			}
			nh := 60
			if tier == "thorough" {
				nh = 1200
			}
			for i, c := range mergep.HistCases(tier, seed, 0xC14D, nh) {
				var h mergep.Hist
				runner.Params(c, &h)
				h.Padding = i%2 == 0
				h.EmptyVals = false
				cs = append(cs, runner.MkCase("drive-writes", c.ID, c14Params{Part: "drive", Hist: &h}))
			}
			return cs
		},
		Run: runC14,
	}
}

func runC14(c runner.Case, env *runner.Env) (res runner.Result) {
	var p c14Params
	runner.Params(c, &p)
	res.Key = c.ID
	switch p.Part {
	case "counts":
		r := rng.New(p.Seed)
		images := map[string]bool{}
		for n := p.From; n < p.To; n++ {
			h := header.Header{Timestamp: header.Timestamp(r.U64()), TxnID: header.TxnID(r.U64()), Flags: header.Flags(r.U64()), NumExtra: n}
			val := r.Bytes(rng.Pick(r, 0, 1, 7, 8, 9, 100))
			variant := r.Intn(3)
			var extra []byte
			switch variant {
			case 1: // Extra given, NumExtra too low: must grow
				extra = r.Bytes(8 * n)
				h.Extra = extra
				h.NumExtra = n / 2
			case 2: // Extra shorter than NumExtra blocks: zero padded
				if n > 0 {
					extra = r.Bytes(r.Intn(8*n) + 1)
					h.Extra = extra
				}
			}
			b := h.Bytes()
			stored := append(append([]byte{}, b...), val...)
			res.Count("header_images", 1)
			images[fmt.Sprintf("%d/%d", n, variant)] = true
			wit := map[string]any{"num_extra": n, "variant": variant, "header_hex": fmt.Sprintf("%x", head(b, 64)), "value_len": len(val)}
			// independent reader
			ih, app, err := hdr.Read(stored)
			if err != nil {
				res.Violate("bytes-unreadable", fmt.Sprintf("Header.Bytes() with %d extension blocks is rejected by the documented-format reader: %v", n, err), wit)
				continue
			}
			wantN := n
			if variant == 1 && len(extra) > 0 {
				wantN = n
			}
			if ih.NumExtra != wantN || ih.TS != uint64(h.Timestamp) || ih.TxnID != uint64(h.TxnID) || ih.Flags != uint8(h.Flags) || ih.Version != 0 || ih.Reserved != [4]byte{} || !bytes.Equal(app, val) {
				res.Violate("bytes-wrong-image", fmt.Sprintf("Header.Bytes() image differs from the documented layout: count %d (want %d) ts %d/%d txn %d/%d flags %x/%x reserved %x value ok=%v", ih.NumExtra, wantN, ih.TS, h.Timestamp, ih.TxnID, h.TxnID, ih.Flags, h.Flags, ih.Reserved, bytes.Equal(app, val)), wit)
				continue
			}
			if len(extra) > 0 && !bytes.Equal(ih.Extra[:len(extra)], extra) {
				res.Violate("bytes-extra-content", "extension bytes not stored as given", wit)
			}
			// the repository's readers
			ph, pv, err := header.Parse(stored)
			if err != nil {
				res.Violate("parse-rejects-own-bytes", fmt.Sprintf("header.Parse rejects a value with %d extension blocks: %v", n, err), wit)
				continue
			}
			if ph.Timestamp != h.Timestamp || ph.TxnID != h.TxnID || ph.Flags != h.Flags || ph.NumExtra != wantN || ph.Version != 0 || !bytes.Equal(pv, val) || !bytes.Equal(ph.Extra, ih.Extra) {
				res.Violate("parse-wrong-fields", fmt.Sprintf("header.Parse of a %d-block header: count %d value_ok=%v extra_ok=%v", n, ph.NumExtra, bytes.Equal(pv, val), bytes.Equal(ph.Extra, ih.Extra)), wit)
			}
			sv, err := header.Skip(stored)
			if err != nil || !bytes.Equal(sv, val) {
				res.Violate("skip-wrong-value", fmt.Sprintf("header.Skip of a %d-block header: err=%v value_ok=%v", n, err, bytes.Equal(sv, val)), wit)
			}
			// one block short must be rejected
			if n > 0 {
				short := stored[:hdr.Min+8*n-1]
				if _, _, err := header.Parse(short); err == nil {
					res.Violate("parse-accepts-short", fmt.Sprintf("header.Parse accepts a value 1 byte shorter than its %d extension blocks", n), wit)
				}
				if _, err := header.Skip(short); err == nil {
					res.Violate("skip-accepts-short", fmt.Sprintf("header.Skip accepts a value 1 byte shorter than its %d extension blocks", n), wit)
				}
			}
		}
		res.NonTrivial = true
		res.Count("distinct_header_images", int64(len(images)))
		res.Sample = map[string]any{"case": c.ID, "extension_counts": []int{p.From, p.To - 1}}
	case "diff":
		r := rng.New(p.Seed)
		accepted := 0
		for i := 0; i < p.Count; i++ {
			var b []byte
			switch r.Intn(5) {
			case 0:
				b = r.Bytes(r.Intn(61))
			case 1: // near-valid: plausible header, random count/version
				n := rng.Pick(r, 0, 0, 1, 2, 3, 4, 8191, 8192, 65535)
				b = hdr.Make(r.U64(), r.U64(), uint8(r.U64()), make([]byte, 8*min(n, 6)), r.Bytes(r.Intn(20)))
				b[22], b[23] = byte(n>>8), byte(n)
				if r.Chance(1, 3) {
					b[16] = byte(r.Intn(4))
				}
				if r.Chance(1, 3) {
					copy(b[18:22], r.Bytes(4))
				}
			case 2: // count exceeding the length by one block / one byte
				n := 1 + r.Intn(5)
				b = hdr.Make(r.U64(), r.U64(), uint8(r.U64()), make([]byte, 8*n), nil)
				b = b[:len(b)-rng.Pick(r, 1, 7, 8, 9)]
			case 3: // exact
				n := r.Intn(5)
				b = hdr.Make(r.U64(), r.U64(), uint8(r.Intn(4)), r.Bytes(8*n), r.Bytes(r.Intn(30)))
			case 4: // lengths around 24
				b = r.Bytes(rng.Pick(r, 0, 1, 7, 8, 15, 16, 17, 22, 23, 24, 25, 31, 32, 33))
				if len(b) > 16 && r.Bool() {
					b[16] = 0
				}
			}
			ih, iv, ierr := hdr.Read(b)
			ph, pv, perr := header.Parse(b)
			sv, serr := header.Skip(b)
			res.Count("byte_strings", 1)
			wit := map[string]any{"value_hex": fmt.Sprintf("%x", b)}
			if (ierr == nil) != (perr == nil) || (ierr == nil) != (serr == nil) {
				res.Violate("accept-reject-differs", fmt.Sprintf("documented-format reader err=%v, header.Parse err=%v, header.Skip err=%v", ierr, perr, serr), wit)
				continue
			}
			// the same byte string as a STORED value met by the merge routine (Merge: the key is in the snapshot too,
			// Clean: the key vanished from the source): a value the documented format rejects must be refused with an
			// error by both, never kept, overwritten or turned into a marker as if it had been read
			if len(b) > 0 {
				in := snapshot.KV{Key: []byte("k"), Value: []byte("incoming"), TimestampNano: 1<<62 + 5}
				_, merr := mergeReal(b, in, Cfg{Format: 3})
				cout, cerr := cleanReal(b)
				if ierr != nil && (merr == nil || cerr == nil) {
					res.Violate("malformed-stored-value-misread", fmt.Sprintf("stored value rejected by the documented format (%v): Merge err=%v, Clean err=%v (Clean result %x)", ierr, merr, cerr, head(cout, 32)), wit)
				}
				if ierr == nil && (merr != nil || cerr != nil) {
					res.Violate("wellformed-stored-value-refused", fmt.Sprintf("stored value accepted by the documented format: Merge err=%v, Clean err=%v", merr, cerr), wit)
				}
				res.Count("stored_values_through_merge_and_clean", 1)
			}
			if ierr != nil {
				res.Add("reject_reasons", ierr.Error())
				continue
			}
			accepted++
			if !bytes.Equal(iv, pv) || !bytes.Equal(iv, sv) || uint64(ph.Timestamp) != ih.TS || uint64(ph.TxnID) != ih.TxnID || uint8(ph.Flags) != ih.Flags || ph.NumExtra != ih.NumExtra || !bytes.Equal(ph.Extra, ih.Extra) {
				res.Violate("split-differs", fmt.Sprintf("value split differently: documented reader value %x, Parse %x, Skip %x", head(iv, 20), head(pv, 20), head(sv, 20)), wit)
			}
		}
		res.Count("accepted_values", int64(accepted))
		res.NonTrivial = accepted > 0
		res.Sample = map[string]any{"case": c.ID, "byte_strings": p.Count, "accepted": accepted}
	case "putbasic":
		r := rng.New(p.Seed)
		for i := 0; i < p.Count; i++ {
			buf := bytes.Repeat([]byte{0xff}, 24+r.Intn(16))
			ts, tx, fl := r.U64(), r.U64(), uint8(r.U64())
			header.PutBasic(buf, header.Timestamp(ts), header.TxnID(tx), header.Flags(fl))
			ih, _, err := hdr.Read(buf[:24])
			if err != nil || ih.TS != ts || ih.TxnID != tx || ih.Flags != fl || ih.NumExtra != 0 || ih.Reserved != [4]byte{} {
				res.Violate("putbasic-image", fmt.Sprintf("PutBasic on a 0xFF-filled buffer: err=%v image %x", err, buf[:24]), map[string]any{"ts": ts, "txn": tx, "flags": fl})
			}
			for _, x := range buf[24:] {
				if x != 0xff {
					res.Violate("putbasic-overrun", "PutBasic wrote beyond the 24 header bytes", nil)
				}
			}
			res.Count("putbasic_images", 1)
		}
		res.NonTrivial = true
		res.Sample = map[string]any{"case": c.ID, "images": p.Count}
	case "drive":
		mergep.RunHist(*p.Hist, env, &res, "C14")
		res.NonTrivial = res.Obs["written_values_checked"] > 0
		res.Key = c.ID
		return
	case "delpayload":
		// Only the well-formedness of what is written is judged here: such entries are outside the application
		// contract ("the value MUST be reset"), so the order laws of C02 are not claimed for them.
		cfg := p.C02.Cfg
		foreignBits, delPayload = cfg.Foreign, true
		defer func() { delPayload = false }()
		lc := &lawsChecker{cfg: cfg, res: &res, r: rng.New(7), tie: map[string]Ver{}}
		V := domainVersions()
		for _, in := range V {
			if !in.Del {
				continue
			}
			for si := -1; si < len(V); si++ {
				var stored []byte
				ctx := "absent"
				if si >= 0 {
					stored = storedBytes(V[si], cfg, lc.r)
					ctx = "stored " + V[si].String()
				}
				if in.TS == 0 && cfg.DefaultTS == 0 {
					continue // no timestamp at all: rejected input
				}
				out, err := mergeReal(stored, toKV(in, cfg.Format), cfg)
				if err != nil {
					res.Violate("merge-error", fmt.Sprintf("%s: Merge of a deleted entry with payload failed: %v", ctx, err), map[string]any{"cfg": cfg})
					continue
				}
				res.Count("merges", 1)
				if out == nil || bytes.Equal(out, stored) {
					continue
				}
				h, _, rerr := hdr.Read(out)
				if rerr != nil {
					res.Violate("result-unreadable", rerr.Error(), map[string]any{"cfg": cfg})
					continue
				}
				lc.checkWritten(out, h, fmt.Sprintf("%s, incoming deleted entry %v carrying a payload", ctx, in), map[string]any{"cfg": cfg, "incoming": in, "result_hex": fmt.Sprintf("%x", out)})
				res.NonTrivial = true
			}
		}
		return
	case "merge":
		r2 := runC02(runner.Case{ID: c.ID, Family: c.Family, P: mustJSON(p.C02)}, env)
		r2.Key = c.ID
		return r2
	}
	return
}

func head(b []byte, n int) []byte {
	if len(b) > n {
		return b[:n]
	}
	return b
}

func mustJSON(v any) []byte {
	b, err := json.Marshal(v)
	if err != nil {
		panic(err)
	}
	return b
}

// cleanReal calls the real NativeIterator.Clean for a stored value.
func cleanReal(stored []byte) ([]byte, error) {
	d := snapshot.NewDBISize(64)
	d.SetName("d")
	it, err := syncer.NewNativeIterator(3, 1, d, header.Timestamp(1<<62), lsTxn, 0)
	if err != nil {
		return nil, err
	}
	out, err := it.Clean(stored)
	if err != nil {
		return nil, err
	}
	return append([]byte{}, out...), nil
}
