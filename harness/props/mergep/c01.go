package mergep

import (
	"fmt"

	"verif/inst"
	"verif/rng"
	"verif/runner"
)

func histCases(tier string, seed int64, salt uint64, delBias []int, n int, orders int) []runner.Case {
	r := rng.New(uint64(seed) ^ salt)
	var cs []runner.Case
	for i := 0; i < n; i++ {
		h := Hist{Seed: r.U64(), Native: i%2 == 0, NInst: 2 + r.Intn(3), Ops: 10 + r.Intn(31), NKeys: 3 + r.Intn(4), NDBI: 1 + r.Intn(3), DelBias: delBias[i%len(delBias)], Padding: i%7 == 3, Orders: orders, IntKeys: i%3 == 1, LongKeys: i%5 == 2}
		if tier == "thorough" {
			h.Ops = 20 + r.Intn(101)
		}
		fam := "native"
		if !h.Native {
			fam = "shadow"
			if i%20 == 1 {
				h.EmptyVals = true
				fam = "shadow-emptyvalues"
			}
		}
		cs = append(cs, runner.MkCase(fam, fmt.Sprintf("%d-%s", i, h.ID()), h))
	}
	return cs
}

const driveRule = "direct drive of 2-4 real instances (real LMDB + real Syncer each) on one bucket: a PRNG schedule interleaves application puts/deletes (3-6 keys over 1-3 DBIs so that conflicts are the rule; every third history has an additional MDB_INTEGERKEY DBI with keys 0, 1, 255, 256, 65536, 2^31, 2^32-1, whose byte order is not the DBI's order; values \"\", \"a\", \"b\", 300 bytes; native timestamps from {0,1,2,3,2^40}, monotone per key per instance, so equal timestamps on different instances, timestamp 0 and deletion-vs-empty-value ties occur in both arrival orders) " +
	"with SendOnce uploads and LoadOnce merges of any stored snapshot of another instance (not necessarily the newest); then a closing phase (everyone uploads, everyone merges every newest snapshot, repeated until nothing changes). "

func C01() *runner.Property {
	return &runner.Property{
		ID: "C01", Level: "exploration",
		Rule: driveRule + "Step oracle after every merge (result is the stored or the incoming version, the newer one, ties consistent with a tie table across instances and orders, untouched keys unchanged, application view = live entries); final oracle: all instances identical in (timestamp, deleted, value) per DBI/key (shadow mode: identical application DBIs too), " +
			"the content is a highest-timestamp version of all versions ever written (native: the application's writes; shadow: versions observed being captured), convergence within N+1 rounds, and (native) the same application history replayed under other delivery orders ends in the same content. " +
			"realloops-late: the newest version of a key is committed on i0 exactly at one of 8 yield points of i0's own loop (inside/after the snapshot transaction, before/after the upload, around the change detection), then silence: it must reach every instance. realloops: 2-4 real Sync loops on one bucket with application writers on 4 conflicting keys; once the writers stopped and every loop is idle (logical clock) all instances must be identical and (native) hold the highest-timestamp version written anywhere. " +
			"Non-trivial = >= 1 key received >= 2 conflicting versions and >= 1 merge changed stored data; distinct by history.",
		Assumptions: []string{"sweeper disabled", "shadow mode: all instances run on one host clock (the documented shared monotone clock)", "application writes are monotone per key per instance"},
		BatchSize:   10, CaseTimeout: 180e9,
		MinNonTrivial: func(string) int { return 50 },
		Cases: func(tier string, seed int64) []runner.Case {
			n := 300
			if tier == "thorough" {
				n = 5000
			}
			cs := histCases(tier, seed, 0xC01, []int{15, 30}, n, 2)
			r := rng.New(uint64(seed) ^ 0xC01F)
			nf := 12
			if tier == "thorough" {
				nf = 120
			}
			// deterministic tie family: two native instances write conflicting versions at the same timestamp
			tvals := []string{"live-empty", "a", "b", "deleted"}
			for _, ts := range []uint64{0, 1, 1 << 40} {
				for i, va := range tvals {
					for j, vb := range tvals {
						if i < j {
							cs = append(cs, runner.MkCase("ties", fmt.Sprintf("ts%d-%s-vs-%s", ts, va, vb), tieCase{TS: ts, A: va, B: vb}))
						}
					}
				}
			}
			for i := 0; i < nf; i++ {
				q := quietFleet{Native: i%2 == 0, Padding: i%5 == 4, N: 2 + i%3, Writes: 15 + r.Intn(40), Seed: r.U64()}
				cs = append(cs, runner.MkCase("realloops", fmt.Sprintf("%d-native=%v-n%d", i, q.Native, q.N), q))
			}
			// the newest write of the whole history lands at a yield point of the writer's own sync loop, then silence
			for rep := 0; rep < nf/12; rep++ {
				for _, native := range []bool{true, false} {
					for _, pt := range []string{"loop.top", "loop.before_info", "loop.after_info", "send.before_txn", "send.after_txn", "send.before_store", "send.after_store", "loop.end"} {
						q := quietFleet{Native: native, N: 2 + rep%2, Writes: 4 + r.Intn(8), Seed: r.U64(), LateAt: pt}
						cs = append(cs, runner.MkCase("realloops-late", fmt.Sprintf("%d-native=%v-%s", rep, native, pt), q))
					}
					for _, pt := range []string{"send.before_txn", "send.after_txn", "send.after_store"} {
						q := quietFleet{Native: native, N: 2, Writes: 6 + r.Intn(6), Seed: r.U64(), LateAt: pt, LateForced: true}
						cs = append(cs, runner.MkCase("realloops-late", fmt.Sprintf("%d-native=%v-forced-%s", rep, native, pt), q))
					}
				}
			}
			return cs
		},
		Run: func(c runner.Case, env *runner.Env) (res runner.Result) {
			res.Key = c.ID
			if c.Family == "ties" {
				var t tieCase
				runner.Params(c, &t)
				runTie(t, env, &res)
				return
			}
			if c.Family == "realloops" || c.Family == "realloops-late" {
				var q quietFleet
				runner.Params(c, &q)
				RunConvergingFleet(q, env, &res)
				return
			}
			var h Hist
			runner.Params(c, &h)
			RunHist(h, env, &res, "C01")
			return
		},
	}
}

// HistCases exposes the history generator to other checks (C14's write monitor).
func HistCases(tier string, seed int64, salt uint64, n int) []runner.Case {
	return histCases(tier, seed, salt, []int{20, 40}, n, 1)
}

type tieCase struct {
	TS uint64 `json:"ts"`
	A  string `json:"a"`
	B  string `json:"b"`
}

// runTie: instance i0 writes version A, i1 writes version B of the same key at the same timestamp; snapshots are
// exchanged in both arrival orders (two fleets); all four instances must end with the same version.
func runTie(t tieCase, env *runner.Env, res *runner.Result) {
	mk := func(v string) appOp {
		op := appOp{DBI: "d0", Key: "k", TS: t.TS}
		switch v {
		case "deleted":
			op.Del = true
		case "live-empty":
			op.Val = ""
		default:
			op.Val = v
		}
		return op
	}
	var finals []inst.Ver
	for order := 0; order < 2; order++ {
		h := Hist{Native: true, NInst: 2, NDBI: 1, NKeys: 1, Seed: uint64(order)}
		f, err := newFleet(h, env, res, "C01", fmt.Sprintf("tie%d", order))
		if err != nil {
			res.Verdict, res.Msg = runner.Inconclusive, err.Error()
			return
		}
		a, b := mk(t.A), mk(t.B)
		a.Inst, b.Inst = 0, 1
		_ = f.applyApp(a)
		_ = f.applyApp(b)
		ba, _ := f.upload(0)
		bb, _ := f.upload(1)
		if order == 0 {
			_ = f.merge(0, bb)
			_ = f.merge(1, ba)
		} else {
			_ = f.merge(1, ba)
			_ = f.merge(0, bb)
		}
		rounds, err := f.converge()
		if err != nil {
			res.Violate("closing-phase-error", err.Error(), f.wit(""))
			f.close()
			return
		}
		st := f.finalOracle(rounds)
		if st != nil {
			finals = append(finals, st["d0"]["k"])
		}
		f.close()
	}
	if len(finals) == 2 && finals[0] != finals[1] {
		res.Violate("tie-order-dependent", fmt.Sprintf("the tie between %s and %s at timestamp %d ends as %v in one arrival order and %v in the other", t.A, t.B, t.TS, finals[0], finals[1]), map[string]any{"tie": t})
	}
	res.NonTrivial = true
	res.Count("tie_cases", 1)
	res.Sample = map[string]any{"tie": t, "result": fmt.Sprint(finals)}
}
