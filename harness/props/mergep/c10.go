package mergep

import (
	"fmt"
	"github.com/PowerDNS/lightningstream/snapshot"
	"strings"
	"sync"
	"time"

	"github.com/PowerDNS/lmdb-go/lmdb"

	"verif/lmdbx"

	"verif/bucket"
	"verif/hdr"
	"verif/inst"
	"verif/lsx"
	"verif/props/loopp"
	"verif/rng"
	"verif/runner"
	"verif/sched"
)

type quietFleet struct {
	DupSort  bool `json:"dupsort,omitempty"`            // shadow mode with dupsort_hack and a dupsort DBI (emptied on every instance)
	ForcedMS int  `json:"forced_interval_ms,omitempty"` // storage_force_snapshot_interval
	// SlowStoreMS: every Store takes this long (longer than the forced interval: a big LMDB or slow storage)
	SlowStoreMS int    `json:"slow_store_ms,omitempty"`
	Native      bool   `json:"native"`
	Padding     bool   `json:"padding"`
	N           int    `json:"n"`
	Writes      int    `json:"writes"`
	Seed        uint64 `json:"seed"`
	// LateAt: after the writers stopped, one more application commit (the newest version of its key) is placed on
	// instance i0 exactly at this yield point of i0's own sync loop, followed by silence: it must still reach everyone
	LateAt string `json:"late_at,omitempty"`
	// LateForced: no trigger write; i0 runs with a forced snapshot interval, so the late commit lands at the yield
	// point of a periodic snapshot whose transaction has nothing to capture (after an ordinary deletion earlier on)
	LateForced bool `json:"late_forced,omitempty"`
}

type c10Params struct {
	Loop  *loopp.Scn  `json:"loop,omitempty"`
	Hist  *Hist       `json:"hist,omitempty"`
	Fleet *quietFleet `json:"fleet,omitempty"`
}

func C10() *runner.Property {
	return &runner.Property{
		ID: "C10", Level: "exploration",
		Rule: "(1) upload-causality monitor on the real Sync loop under the forced schedules of C03/C09: one collector orders application commits, yield events and uploads; an upload of an instance is unexplained (an echo) if it is not the first since Sync started and no application commit completed between the start of the previous upload's transaction and the end of this one's. " +
			"(2) no-op merge: after the closing phase of direct-drive histories (see C01) every instance re-merges every snapshot in the bucket in random order: LastTxnID and the byte-exact dump of the whole LMDB must not change. " +
			"(3) fleets of 2-5 real loops (native and shadow, header padding off/on): after the application writers stop and the loops went idle, no instance uploads during 20 further loop iterations, at most 2 uploads per instance happen after the last application commit, and every upload of the run is explained by the causality monitor. " +
			"Non-trivial = a snapshot exchange changed data on a receiver (histories/fleets) or the armed schedule fired (loop cases).",
		Assumptions: []string{"forced snapshot interval disabled, sweeper off", "any number of start-up uploads is allowed"},
		BatchSize:   10, CaseTimeout: 180e9,
		MinNonTrivial: func(string) int { return 50 },
		Cases: func(tier string, seed int64) []runner.Case {
			var cs []runner.Case
			for _, c := range loopp.C10LoopCases(tier, seed) {
				var s loopp.Scn
				runner.Params(c, &s)
				cs = append(cs, runner.MkCase("loop", c.ID, c10Params{Loop: &s}))
			}
			n := 120
			if tier == "thorough" {
				n = 1500
			}
			for _, c := range histCases(tier, seed, 0xC10, []int{15, 35}, n, 1) {
				var h Hist
				runner.Params(c, &h)
				if h.EmptyVals {
					continue // the known-finding sub-family belongs to C01/C11
				}
				cs = append(cs, runner.MkCase("noop-"+c.Family, c.ID, c10Params{Hist: &h}))
			}
			r := rng.New(uint64(seed) ^ 0xC10F)
			nf := 16
			if tier == "thorough" {
				nf = 200
			}
			for i := 0; i < nf; i++ {
				q := quietFleet{Native: i%2 == 0, Padding: i%4 >= 2, N: 2 + i%4, Writes: 10 + r.Intn(30), Seed: r.U64()}
				cs = append(cs, runner.MkCase("fleet", fmt.Sprintf("%d-native=%v-pad=%v-n%d", i, q.Native, q.Padding, q.N), c10Params{Fleet: &q}))
			}
			for i := 0; i < 6; i++ {
				q := quietFleet{Native: false, DupSort: true, N: 2 + i%2, Writes: 6 + r.Intn(10), Seed: r.U64()}
				cs = append(cs, runner.MkCase("fleet-dupsort", fmt.Sprintf("%d-n%d", i, q.N), c10Params{Fleet: &q}))
			}
			for i := 0; i < 8; i++ {
				q := quietFleet{Native: i%2 == 0, N: 2, Writes: 6, Seed: r.U64(), ForcedMS: 40}
				if i >= 4 {
					// no-news snapshots keep arriving while an emptied dupsort DBI exists everywhere
					q.Native, q.DupSort = false, true
				}
				cs = append(cs, runner.MkCase("fleet-forced-interval", fmt.Sprintf("%d-native=%v-dupsort=%v", i, q.Native, q.DupSort), c10Params{Fleet: &q}))
			}
			for i := 0; i < 4; i++ {
				q := quietFleet{Native: i%2 == 0, N: 2, Writes: 6, Seed: r.U64(), ForcedMS: 40, SlowStoreMS: 60 + 30*(i/2)}
				cs = append(cs, runner.MkCase("fleet-forced-interval", fmt.Sprintf("slowstore-%d-native=%v", i, q.Native), c10Params{Fleet: &q}))
			}
			return cs
		},
		Run: func(c runner.Case, env *runner.Env) (res runner.Result) {
			var p c10Params
			runner.Params(c, &p)
			res.Key = c.ID
			switch {
			case p.Loop != nil:
				loopp.RunScn(*p.Loop, env, &res, "C10")
			case p.Hist != nil:
				RunHist(*p.Hist, env, &res, "C10")
			case p.Fleet != nil:
				runQuietFleet(*p.Fleet, env, &res)
			}
			return
		},
	}
}

func runQuietFleet(q quietFleet, env *runner.Env, res *runner.Result) {
	r := rng.New(q.Seed)
	b := bucket.New()
	s := sched.New()
	defer s.Close()
	// forced-interval clause, exact form: a snapshot without a local change may only be started more than the interval
	// after the previous upload of that instance was finished. storeDone = instant at which the storage is about to
	// return from Store (before the syncer notes the time), sendStart = instant of the next send.before_txn.
	var tmu sync.Mutex
	storeDone := map[string][]time.Time{}
	sendStart := map[string][]time.Time{}
	if q.ForcedMS > 0 {
		b.SetHook(func(op, name string, nth int) bucket.Decision {
			if op == "Store" {
				if q.SlowStoreMS > 0 {
					time.Sleep(time.Duration(q.SlowStoreMS) * time.Millisecond)
				}
				if ni, err := snapshot.ParseName(name); err == nil {
					tmu.Lock()
					storeDone[ni.InstanceID] = append(storeDone[ni.InstanceID], time.Now())
					tmu.Unlock()
				}
			}
			return bucket.Decision{}
		})
		s.Delay = func(in, point string) {
			if point == "send.before_txn" {
				tmu.Lock()
				sendStart[in] = append(sendStart[in], time.Now())
				tmu.Unlock()
			}
		}
	}
	var insts []*inst.Inst
	var loops []*sched.Loop
	for i := 0; i < q.N; i++ {
		conf := lsx.FastConfig(fmt.Sprintf("i%d", i))
		conf.StorageForceSnapshotInterval = time.Duration(q.ForcedMS) * time.Millisecond
		x, err := inst.New(env.Dir(fmt.Sprintf("q%d", i)), b, db, fmt.Sprintf("i%d", i), inst.Opt{Native: q.Native, Padding: q.Padding, Conf: &conf, DupSortHack: q.DupSort})
		if err != nil {
			res.Verdict, res.Msg = runner.Inconclusive, err.Error()
			return
		}
		defer x.Close()
		loopp.AppPut(x, s, fmt.Sprintf("init-%d", i), "v")
		if q.DupSort {
			// a dupsort DBI that exists but is empty (all pairs deleted again), and one with pairs on instance 0
			s.Note(x.Name, "APP BEGIN dupsort")
			_, _ = lmdbx.Update(x.Env, func(txn *lmdb.Txn) error {
				d, err := txn.OpenDBI("dups-empty", lmdb.Create|lmdb.DupSort)
				if err != nil {
					return err
				}
				if err := txn.Put(d, []byte("k"), []byte("v1"), 0); err != nil {
					return err
				}
				if err := txn.Del(d, []byte("k"), []byte("v1")); err != nil { // lmdb-go deletes only the pair (k, "") when the value is nil
					return err
				}
				if i == 0 && q.Writes%2 == 1 {
					// (only in every other fleet: otherwise the emptied DBI is the only dupsort DBI anywhere)
					d2, err := txn.OpenDBI("dups", lmdb.Create|lmdb.DupSort)
					if err != nil {
						return err
					}
					for _, v := range []string{"a", "b", "c"} {
						if err := txn.Put(d2, []byte("host"), []byte(v), 0); err != nil {
							return err
						}
					}
				}
				return nil
			})
			s.Note(x.Name, "APP COMMIT dupsort")
		}
		insts = append(insts, x)
	}
	for _, x := range insts {
		l := sched.Start(x, s)
		loops = append(loops, l)
		defer l.Stop(5 * time.Second)
	}
	emptyDBIs := 0
	for w := 0; w < q.Writes; w++ {
		x := insts[r.Intn(len(insts))]
		if !q.DupSort && emptyDBIs < 3 && r.Chance(1, 5) {
			// the application creates a DBI and leaves it empty: it travels in the next snapshot, the receivers
			// create it - and have nothing to answer
			emptyDBIs++
			name := fmt.Sprintf("empty-%d", emptyDBIs)
			s.Note(x.Name, "APP BEGIN create "+name)
			_, _ = lmdbx.Update(x.Env, func(txn *lmdb.Txn) error {
				_, err := txn.OpenDBI(name, lmdb.Create)
				return err
			})
			s.Note(x.Name, "APP COMMIT create "+name)
			res.Count("empty_dbis_created_by_application", 1)
			// let this change travel alone now and then
			if r.Bool() {
				time.Sleep(8 * time.Millisecond)
			}
			continue
		}
		loopp.AppPut(x, s, fmt.Sprintf("k%d", r.Intn(5)), fmt.Sprintf("w%d-%s", w, x.Name))
		time.Sleep(time.Duration(r.Intn(2000)) * time.Microsecond)
	}
	stopIdx := s.Len()
	s.Note("harness", "WRITERS STOPPED")
	const wd = 30 * time.Second
	for _, l := range loops {
		if ok, why := l.WaitQuiescent(nil, 5, wd); !ok {
			if err, c, fin := l.Result(); fin {
				res.Violate("sync-ended", fmt.Sprintf("Sync of %s ended (err=%v crashed=%v)", l.I.Name, err, c), map[string]any{"fleet": q, "events_tail": s.Tail(60)})
				return
			}
			res.Verdict, res.Msg = runner.Inconclusive, "fleet did not go idle: "+why
			return
		}
	}
	// all instances idle once more together (merges may have woken some up)
	for round := 0; round < 3; round++ {
		for _, l := range loops {
			l.WaitQuiescent(nil, 5, wd)
		}
	}
	if q.ForcedMS > 0 {
		// with a forced interval the fleet never goes fully idle: the rate of uploads is bounded instead
		t0 := time.Now()
		st0 := b.SuccessfulCount("Store")
		time.Sleep(time.Duration(6*q.ForcedMS) * time.Millisecond)
		el := time.Since(t0)
		n := b.SuccessfulCount("Store") - st0
		allowed := q.N * (3 + int(el/(time.Duration(q.ForcedMS)*time.Millisecond)))
		res.Count("forced_interval_fleets", 1)
		res.Add("forced_interval_uploads", fmt.Sprintf("%d in %v (allowed %d)", n, el.Round(time.Millisecond), allowed))
		interval := time.Duration(q.ForcedMS) * time.Millisecond
		tmu.Lock()
		for in, starts := range sendStart {
			for _, st := range starts {
				if st.Before(t0) {
					continue // only the quiet phase: no application commit can explain an upload there
				}
				var prev time.Time
				for _, d := range storeDone[in] {
					if d.Before(st) && d.After(prev) {
						prev = d
					}
				}
				if !prev.IsZero() {
					res.Count("forced_upload_gaps_checked", 1)
					if gap := st.Sub(prev); gap <= interval {
						res.Violate("forced-snapshot-before-the-interval-elapsed", fmt.Sprintf("instance %s started a snapshot without any local change %v after its previous upload was stored; storage_force_snapshot_interval is %v (Store takes %d ms)", in, gap, interval, q.SlowStoreMS), map[string]any{"fleet": q})
					}
				}
			}
		}
		tmu.Unlock()
		if n > allowed {
			res.Violate("more-uploads-than-the-forced-interval-explains", fmt.Sprintf("%d uploads in %v by %d idle instances with storage_force_snapshot_interval=%dms (at most %d explained)", n, el, q.N, q.ForcedMS, allowed), map[string]any{"fleet": q, "events_tail": s.Tail(60)})
		}
		res.NonTrivial = true
		return
	}
	if !q.DupSort && len(insts) >= 2 {
		// the whole fleet is idle: two applications write the SAME value for one key (and both delete another key)
		// before either has seen the other's snapshot. The later-stamped version then only changes a timestamp (or a
		// marker) on the other side: a merge that writes, but brings nothing to publish.
		for _, x := range insts[:2] {
			loopp.AppPut(x, s, "shared", "same-value-everywhere")
		}
		for _, x := range insts[:2] {
			s.Note(x.Name, "APP BEGIN delete k1")
			_, _ = lmdbx.Update(x.Env, func(txn *lmdb.Txn) error {
				if q.Native {
					return inst.NativePut(txn, "d", []byte("k1"), uint64(time.Now().UnixNano()), true, nil)
				}
				return lmdbx.Del(txn, "d", []byte("k1"))
			})
			s.Note(x.Name, "APP COMMIT delete k1")
		}
		res.Count("same_value_written_on_two_instances", 1)
		for round := 0; round < 3; round++ {
			for _, l := range loops {
				l.WaitQuiescent(nil, 5, wd)
			}
		}
	}
	if !q.DupSort {
		// the whole fleet is idle: one application creates an empty DBI. Its instance uploads once; everybody else
		// creates the DBI while merging that snapshot and must stay silent.
		x := insts[0]
		s.Note(x.Name, "APP BEGIN create empty-last")
		_, _ = lmdbx.Update(x.Env, func(txn *lmdb.Txn) error {
			_, err := txn.OpenDBI("empty-last", lmdb.Create)
			return err
		})
		s.Note(x.Name, "APP COMMIT create empty-last")
		res.Count("empty_dbis_created_by_application", 1)
		for round := 0; round < 3; round++ {
			for _, l := range loops {
				l.WaitQuiescent(nil, 5, wd)
			}
		}
	}
	idleIdx := s.Len()
	storesAtIdle := b.SuccessfulCount("Store")
	// 20 further loop iterations of every instance
	deadline := time.Now().Add(wd)
	for time.Now().Before(deadline) {
		all := true
		for _, x := range insts {
			if s.Count(x.Name, "loop.end", idleIdx) < 20 {
				all = false
			}
		}
		if all {
			break
		}
		time.Sleep(time.Millisecond)
	}
	res.Count("quiet_fleets", 1)
	res.Count("fleet_uploads", int64(b.SuccessfulCount("Store")))
	wit := map[string]any{"fleet": q, "events_tail": s.Tail(80)}
	if n := b.SuccessfulCount("Store") - storesAtIdle; n > 0 {
		res.Violate("fleet-keeps-uploading", fmt.Sprintf("%d uploads happened during 20 further loop iterations after the whole fleet was idle and no application wrote", n), wit)
	}
	evs := s.Events()
	for _, x := range insts {
		after := 0
		for _, e := range evs[stopIdx:] {
			if e.Inst == x.Name && e.Point == "send.after_store" {
				after++
			}
		}
		if after > 6 {
			res.Violate("uploads-after-writers-stopped", fmt.Sprintf("instance %s uploaded %d snapshots after the writers stopped (at most 6 are explained)", x.Name, after), wit)
		}
		res.Add("uploads_after_stop_per_instance", fmt.Sprint(after))
		loopp.CheckCausalityOf(evs, x.Name, res, wit)
	}
	// the exchange did something
	changed := false
	for _, x := range insts {
		st, err := x.Logical()
		if err == nil {
			for _, kv := range st {
				for k := range kv {
					if strings.HasPrefix(k, "init-") && k != "init-"+strings.TrimPrefix(x.Name, "i") {
						changed = true
					}
				}
			}
		}
	}
	res.NonTrivial = changed
	res.Sample = map[string]any{"fleet": q, "uploads": b.SuccessfulCount("Store"), "events": len(evs)}
}

// RunConvergingFleet (C01, real loops): N real Sync loops with concurrent application writers on few keys; after the
// writers stop and the fleet is idle all instances must hold identical content, and for every key the value of the
// version with the highest timestamp written anywhere (native mode: the harness chose the timestamps).
func RunConvergingFleet(q quietFleet, env *runner.Env, res *runner.Result) {
	r := rng.New(q.Seed)
	b := bucket.New()
	s := sched.New()
	defer s.Close()
	var insts []*inst.Inst
	var loops []*sched.Loop
	for i := 0; i < q.N; i++ {
		conf := lsx.FastConfig(fmt.Sprintf("i%d", i))
		if q.LateForced && i == 0 {
			conf.StorageForceSnapshotInterval = 15 * time.Millisecond
		}
		x, err := inst.New(env.Dir(fmt.Sprintf("cf%d", i)), b, db, fmt.Sprintf("i%d", i), inst.Opt{Native: q.Native, Padding: q.Padding, Conf: &conf})
		if err != nil {
			res.Verdict, res.Msg = runner.Inconclusive, err.Error()
			return
		}
		defer x.Close()
		insts = append(insts, x)
	}
	for _, x := range insts {
		l := sched.Start(x, s)
		loops = append(loops, l)
		defer l.Stop(5 * time.Second)
	}
	// writers: few keys, conflicting; native timestamps strictly increasing per (instance,key) from a small shared range
	type wv struct {
		ts  uint64
		del bool
		val string
	}
	best := map[string]wv{} // native: highest timestamp per key (ties: any)
	all := map[string][]wv{}
	base := uint64(time.Now().UnixNano())
	last := map[string]uint64{}
	lateKey, lateVal := "", ""
	for w := 0; w < q.Writes; w++ {
		i := r.Intn(len(insts))
		x := insts[i]
		key := fmt.Sprintf("k%d", r.Intn(4))
		del := r.Chance(1, 5)
		val := fmt.Sprintf("w%d-i%d", w, i)
		ts := base + uint64(r.Intn(8))*1000
		id := fmt.Sprintf("%d/%s", i, key)
		if ts <= last[id] {
			ts = last[id] + 1000
		}
		last[id] = ts
		s.Note(x.Name, "APP BEGIN "+key)
		_, err := lmdbx.Update(x.Env, func(txn *lmdb.Txn) error {
			if q.Native {
				// a native application stamps a change with the time of the change: never below the version it
				// overwrites (which may have arrived from another instance meanwhile)
				if dbi, err := txn.OpenDBI("d", 0); err == nil {
					if cur, err := txn.Get(dbi, []byte(key)); err == nil {
						if h, _, err := hdr.Read(cur); err == nil && h.TS >= ts {
							ts = h.TS + 1000
						}
					}
				}
				last[id] = ts
				return inst.NativePut(txn, "d", []byte(key), ts, del, []byte(val))
			}
			if del {
				return lmdbx.Del(txn, "d", []byte(key))
			}
			return lmdbx.Put(txn, "d", 0, []byte(key), []byte(val))
		})
		s.Note(x.Name, "APP COMMIT "+key)
		if err != nil {
			res.Verdict, res.Msg = runner.Inconclusive, err.Error()
			return
		}
		v := wv{ts, del, val}
		all[key] = append(all[key], v)
		if bv, ok := best[key]; !ok || ts > bv.ts {
			best[key] = v
		}
		time.Sleep(time.Duration(r.Intn(1500)) * time.Microsecond)
	}
	const wd = 30 * time.Second
	if q.LateAt != "" {
		// "after all other writes" must also hold for the stamps: in shadow mode a version is stamped when its
		// instance captures it, so every earlier write has to be captured before the late one is made
		for round := 0; round < 2; round++ {
			for _, l := range loops {
				l.WaitQuiescent(nil, 5, wd)
			}
		}
		if !q.LateForced {
			fleetSettled(insts, loops, s, b, wd)
		}
	}
	if q.LateAt != "" && q.LateForced {
		// an ordinary deletion on i0, fully synced, before the late commit
		x := insts[0]
		s.Note(x.Name, "APP BEGIN predel")
		_, _ = lmdbx.Update(x.Env, func(txn *lmdb.Txn) error {
			if q.Native {
				return inst.NativePut(txn, "d", []byte("k3"), base+900_000, true, nil)
			}
			return lmdbx.Del(txn, "d", []byte("k3"))
		})
		s.Note(x.Name, "APP COMMIT predel")
		all["k3"] = append(all["k3"], wv{base + 900_000, true, ""})
		best["k3"] = wv{base + 900_000, true, ""}
		for _, l := range loops {
			l.WaitQuiescent(nil, 5, wd)
		}
	}
	if q.LateAt != "" && !q.DupSort {
		x := insts[0]
		key := "k0"
		ts := base + 1_000_000
		val := "late-write"
		arm := s.ArmAt(x.Name, q.LateAt, 1, func(sched.Event) {
			s.Note(x.Name, "APP BEGIN "+key)
			_, _ = lmdbx.Update(x.Env, func(txn *lmdb.Txn) error {
				if q.Native {
					return inst.NativePut(txn, "d", []byte(key), ts, false, []byte(val))
				}
				return lmdbx.Put(txn, "d", 0, []byte(key), []byte(val))
			})
			s.Note(x.Name, "APP COMMIT "+key)
		})
		// a trigger write (an older version of another key) makes i0 go through a send, so that send.* points occur;
		// with a forced interval the periodic snapshots provide them
		if !q.LateForced {
			_, _ = lmdbx.Update(x.Env, func(txn *lmdb.Txn) error {
				if q.Native {
					return inst.NativePut(txn, "d", []byte("trigger"), base, false, []byte("t"))
				}
				return lmdbx.Put(txn, "d", 0, []byte("trigger"), []byte("t"))
			})
		}
		deadline := time.Now().Add(wd)
		for !s.Fired(arm) {
			if time.Now().After(deadline) {
				res.Verdict, res.Msg = runner.Inconclusive, "yield point "+q.LateAt+" was not reached"
				return
			}
			time.Sleep(200 * time.Microsecond)
		}
		v := wv{ts, false, val}
		all[key] = append(all[key], v)
		best[key] = v
		res.Count("late_writes_at_yield_points", 1)
		res.Add("late_write_points", q.LateAt)
		lateKey, lateVal = key, val
	}
	for round := 0; round < 4; round++ {
		for _, l := range loops {
			if ok, why := l.WaitQuiescent(nil, 5, wd); !ok {
				if err, c, fin := l.Result(); fin {
					res.Violate("sync-ended", fmt.Sprintf("Sync of %s ended (err=%v crashed=%v)", l.I.Name, err, c), map[string]any{"fleet": q, "events_tail": s.Tail(60)})
					return
				}
				res.Verdict, res.Msg = runner.Inconclusive, "fleet did not go idle: "+why
				return
			}
		}
	}
	if q.ForcedMS == 0 && !q.LateForced {
		// at rest = idle AND everybody has merged everybody's newest snapshot. A fleet that stays idle without ever
		// doing that is not converging: judged below on the states, after the bounded wait
		if ok, _ := fleetSettled(insts, loops, s, b, wd); !ok {
			res.Count("fleets_idle_without_having_merged_all_newest_snapshots", 1)
		}
	}
	res.Count("converging_fleets", 1)
	wit := map[string]any{"fleet": q, "events_tail": s.Tail(60)}
	states := make([]inst.State, len(insts))
	for i, x := range insts {
		states[i], _ = x.Logical()
	}
	for i := 1; i < len(states); i++ {
		if df := inst.DiffState(states[0], states[i]); df != "" {
			res.Violate("replicas-diverge", fmt.Sprintf("fleet idle, i0 and i%d differ: %s", i, df), wit)
		}
	}
	if q.Native {
		conflicts := 0
		for key, bv := range best {
			got, ok := states[0]["d"][key]
			if len(all[key]) > 1 {
				conflicts++
			}
			if !ok || got.TS != bv.ts {
				res.Violate("not-the-lww-winner", fmt.Sprintf("d[%s] converged to %v, the highest timestamp written anywhere is %d", key, got, bv.ts), wit)
				continue
			}
			okVal := false
			for _, v := range all[key] {
				if v.ts == got.TS && v.del == got.Del && (v.del || v.val == got.Val) {
					okVal = true
				}
			}
			if !okVal {
				res.Violate("not-the-lww-winner", fmt.Sprintf("d[%s] converged to %v which nobody wrote with that timestamp", key, got), wit)
			}
		}
		res.Count("keys_with_conflicting_versions", int64(conflicts))
	} else {
		a0, _ := insts[0].App()
		if lateKey != "" {
			for i, x := range insts {
				ai, _ := x.App()
				if ai["d"][lateKey] != lateVal {
					res.Violate("newest-write-not-propagated", fmt.Sprintf("i0 committed d[%s]=%q at its yield point %s after all other writes and then stayed silent; idle fleet: i%d holds %q", lateKey, lateVal, q.LateAt, i, ai["d"][lateKey]), wit)
				}
			}
		}
		for i := 1; i < len(insts); i++ {
			ai, _ := insts[i].App()
			if fmt.Sprint(a0) != fmt.Sprint(ai) {
				res.Violate("application-dbis-diverge", fmt.Sprintf("application DBIs of i0 and i%d differ in an idle fleet", i), wit)
			}
		}
	}
	res.NonTrivial = true
	res.Sample = map[string]any{"fleet": q, "uploads": b.SuccessfulCount("Store"), "events": s.Len()}
}

// fleetSettled waits until the fleet is really at rest: every loop idle (logical clock) AND every instance has merged
// the newest snapshot of every other instance that is in the bucket. Idle iterations alone are not enough on a loaded
// machine: a download or a decompression in flight does not show in the loop's iteration count.
func fleetSettled(insts []*inst.Inst, loops []*sched.Loop, s *sched.Sched, b *bucket.B, wd time.Duration) (bool, string) {
	deadline := time.Now().Add(wd)
	good := 0
	for time.Now().Before(deadline) {
		for _, l := range loops {
			if ok, why := l.WaitQuiescent(nil, 5, wd); !ok {
				return false, l.I.Name + ": " + why
			}
		}
		newest := map[string]string{}
		for _, n := range b.Names() {
			if ni, err := snapshot.ParseName(n); err == nil && n > newest[ni.InstanceID] {
				newest[ni.InstanceID] = n
			}
		}
		all := true
		for _, x := range insts {
			for in, n := range newest {
				if in != x.Name && !s.Loaded(x.Name, n, 0) {
					all = false
				}
			}
		}
		if all {
			good++
			if good >= 2 {
				return true, ""
			}
		} else {
			good = 0
		}
		time.Sleep(2 * time.Millisecond)
	}
	return false, "instances have not merged each other's newest snapshots"
}
