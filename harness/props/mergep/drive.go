// Package mergep holds the direct-drive monitors over several real instances
// on one bucket: C01 (convergence to the last-writer-wins winner), C04
// (deletions propagate, no resurrection, sweeper cutoffs) and C10 (no echo
// uploads, no write amplification).
package mergep

import (
	"context"
	"encoding/binary"
	"fmt"
	"sort"
	"strings"
	"time"

	"github.com/PowerDNS/lmdb-go/lmdb"

	"github.com/PowerDNS/lightningstream/snapshot"

	"verif/bucket"
	"verif/hdr"
	"verif/inst"
	"verif/lmdbx"
	"verif/rng"
	"verif/runner"
	"verif/wire"
)

const db = "db"

type Hist struct {
	Seed    uint64 `json:"seed"`
	Native  bool   `json:"native"`
	NInst   int    `json:"ninst"`
	Ops     int    `json:"ops"`
	NKeys   int    `json:"nkeys"`
	NDBI    int    `json:"ndbi"`
	DelBias int    `json:"delbias"` // percentage of application ops that are deletes
	Padding bool   `json:"padding,omitempty"`
	Orders  int    `json:"orders"` // number of delivery orders to replay (native mode)
	// EmptyVals: shadow mode only - include live empty values (the known-finding sub-family);
	// native histories always include them
	EmptyVals bool `json:"emptyvals,omitempty"`
	// IntKeys: one more DBI "di" with MDB_INTEGERKEY and 4-byte keys whose byte order differs from their integer order
	IntKeys bool `json:"intkeys,omitempty"`
	// LongKeys: key 0 has LMDB's maximum key size (511 bytes), key 1 one byte less
	LongKeys bool `json:"longkeys,omitempty"`
}

func (h Hist) ID() string {
	m := "shadow"
	if h.Native {
		m = "native"
	}
	return fmt.Sprintf("%s-n%d-ops%d-k%d-d%d-del%d-%x", m, h.NInst, h.Ops, h.NKeys, h.NDBI, h.DelBias, h.Seed&0xfffff)
}

type appOp struct {
	Inst int
	DBI  string
	Key  string
	Val  string
	Del  bool
	TS   uint64 // native only
	// Clear: shadow mode only - the application deletes every key of the DBI in one transaction (the DBI stays, empty)
	Clear bool
}

// fleet is a set of real instances.
type fleet struct {
	h     Hist
	b     *bucket.B
	insts []*inst.Inst
	res   *runner.Result
	which string
	// all versions ever created, per dbi\x00key
	versions map[string]map[inst.Ver]bool
	tie      map[string]inst.Ver
	trace    []string
	// markers merged per instance: key -> highest marker timestamp seen merged
	blobsOf map[int][]string
	ctx     context.Context
}

func newFleet(h Hist, env *runner.Env, res *runner.Result, which, tag string) (*fleet, error) {
	f := &fleet{h: h, b: bucket.New(), res: res, which: which, versions: map[string]map[inst.Ver]bool{}, tie: map[string]inst.Ver{}, blobsOf: map[int][]string{}, ctx: context.Background()}
	for i := 0; i < h.NInst; i++ {
		x, err := inst.New(env.Dir(fmt.Sprintf("%s-i%d", tag, i)), f.b, db, fmt.Sprintf("i%d", i), inst.Opt{Native: h.Native, Padding: h.Padding})
		if err != nil {
			f.close()
			return nil, err
		}
		f.insts = append(f.insts, x)
	}
	return f, nil
}

func (f *fleet) close() {
	for _, x := range f.insts {
		x.Close()
	}
}

func (f *fleet) wit(extra string) map[string]any {
	t := f.trace
	if len(t) > 60 {
		t = t[len(t)-60:]
	}
	return map[string]any{"history": f.h, "detail": extra, "trace_tail": t}
}

func (f *fleet) addVersion(dbi, key string, v inst.Ver) {
	id := dbi + "\x00" + key
	if f.versions[id] == nil {
		f.versions[id] = map[inst.Ver]bool{}
	}
	f.versions[id][v] = true
}

func pairKey(a, b inst.Ver) string {
	x, y := a.String(), b.String()
	if x > y {
		x, y = y, x
	}
	return x + "|" + y
}

// applyApp performs an application write on an instance.
func (f *fleet) applyApp(op appOp) error {
	x := f.insts[op.Inst]
	_, err := lmdbx.Update(x.Env, func(txn *lmdb.Txn) error {
		var cf uint
		if op.DBI == "di" {
			cf = lmdb.IntegerKey
		}
		if f.h.Native {
			return inst.NativePutFlags(txn, op.DBI, cf, []byte(op.Key), op.TS, op.Del, []byte(op.Val))
		}
		if op.Clear {
			d, err := lmdbx.ReadDBI(txn, op.DBI)
			if err != nil || d == nil {
				return nil // the DBI does not exist yet on this instance
			}
			for _, kv := range d.KVs {
				if err := lmdbx.Del(txn, op.DBI, kv.K); err != nil {
					return err
				}
			}
			return nil
		}
		if op.Del {
			return lmdbx.Del(txn, op.DBI, []byte(op.Key))
		}
		return lmdbx.Put(txn, op.DBI, cf, []byte(op.Key), []byte(op.Val))
	})
	if err == nil && f.h.Native {
		v := inst.Ver{TS: op.TS, Del: op.Del, Val: op.Val}
		if v.Del {
			v.Val = ""
		}
		f.addVersion(op.DBI, op.Key, v)
	}
	f.trace = append(f.trace, fmt.Sprintf("app i%d %s[%q] del=%v clear=%v val=%q ts=%d", op.Inst, op.DBI, op.Key, op.Del, op.Clear, trunc(op.Val), op.TS))
	return err
}

func trunc(s string) string {
	if len(s) > 12 {
		return s[:12] + "..."
	}
	return s
}

// observe records versions that appeared in an instance's logical state (shadow mode: captured by LS).
func (f *fleet) observe(i int, before, after inst.State) {
	for d, kv := range after {
		for k, v := range kv {
			if bv, ok := before[d][k]; !ok || bv != v {
				f.addVersion(d, k, v)
			}
		}
	}
}

// upload = SendOnce on instance i; the blob must equal the logical state (C04/C06 clause: markers travel).
func (f *fleet) upload(i int) (string, error) {
	x := f.insts[i]
	before, _ := x.Logical()
	lastBefore := lmdbx.LastTxnID(x.Env)
	if lastBefore == 0 {
		return "", nil // nothing to send from an empty LMDB
	}
	blob, _, err := x.Send(f.ctx)
	if err != nil {
		return "", err
	}
	after, _ := x.Logical()
	if !f.h.Native {
		f.observe(i, before, after)
		// capture oracle (shadow mode): SendOnce first copies the application DBIs into the timestamped state, so right
		// after it every application entry is a live entry with the same value and every other entry of the
		// timestamped state is a deletion marker - a local deletion that is not turned into a marker here can never win
		av, _ := x.App()
		for d, kv := range after {
			for k, v := range kv {
				got, present := av[d][k]
				if !v.Del && !present {
					f.res.Violate("local-deletion-not-captured", fmt.Sprintf("after SendOnce on i%d, %s[%q] is live %v in the timestamped state but the application has deleted it: the deletion got no marker", i, d, k, v), f.wit(blob))
				} else if !v.Del && got != v.Val {
					f.res.Violate("local-write-not-captured", fmt.Sprintf("after SendOnce on i%d, %s[%q] is %v in the timestamped state but the application holds %q", i, d, k, v, got), f.wit(blob))
				} else if v.Del && present {
					f.res.Violate("local-write-not-captured", fmt.Sprintf("after SendOnce on i%d, %s[%q] is a deletion marker in the timestamped state but the application holds %q", i, d, k, got), f.wit(blob))
				}
			}
		}
		for d, kv := range av {
			for k, got := range kv {
				if _, ok := after[d][k]; !ok {
					f.res.Violate("local-write-not-captured", fmt.Sprintf("after SendOnce on i%d, the application's %s[%q]=%q has no entry in the timestamped state", i, d, k, got), f.wit(blob))
				}
			}
		}
		f.res.Count("capture_checks", 1)
	}
	f.trace = append(f.trace, fmt.Sprintf("upload i%d -> %s", i, blob))
	if blob != "" {
		f.blobsOf[i] = append(f.blobsOf[i], blob)
		data, _ := f.b.Get(blob)
		ws, derr := wire.DecodeBlob(data)
		if derr != nil {
			f.res.Violate("uploaded-blob-undecodable", derr.Error(), f.wit(blob))
			return blob, nil
		}
		if df := inst.DiffState(inst.StateOfSnap(ws), after); df != "" {
			f.res.Violate("snapshot-differs-from-lmdb", fmt.Sprintf("the snapshot %s uploaded by i%d differs from its LMDB (snapshot vs LMDB; deletion markers must travel): %s", blob, i, df), f.wit(blob))
		}
		f.res.Count("uploads", 1)
	}
	return blob, nil
}

// merge = LoadOnce of a stored blob on instance i, with the per-step oracles.
func (f *fleet) merge(i int, blob string) error {
	x := f.insts[i]
	if !f.h.Native {
		// capture local changes first, so that the merge step itself is observable
		b0, _ := x.Logical()
		if lmdbx.LastTxnID(x.Env) > 0 {
			if _, _, err := x.LoadSnap(f.ctx, inst.EmptySnap(db, "none"), "none", time.Unix(1, 0), 0); err != nil {
				return err
			}
		}
		b1, _ := x.Logical()
		f.observe(i, b0, b1)
	}
	data, _ := f.b.Get(blob)
	ws, err := wire.DecodeBlob(data)
	if err != nil {
		return err
	}
	incoming := inst.StateOfSnap(ws)
	before, _ := x.Logical()
	rawBefore, _, _ := lmdbx.DumpEnv(x.Env)
	lastBefore := lmdbx.LastTxnID(x.Env)
	if _, _, err := x.LoadBlob(f.ctx, blob, 0); err != nil {
		return err
	}
	after, _ := x.Logical()
	if f.which == "C14" {
		rawAfter, _, _ := lmdbx.DumpEnv(x.Env)
		f.checkWrittenValues(i, rawBefore, rawAfter, lastBefore, lmdbx.LastTxnID(x.Env), "merge of "+blob)
	}
	f.trace = append(f.trace, fmt.Sprintf("merge i%d <- %s", i, blob))
	f.res.Count("merges", 1)
	changed := false
	for d, kv := range incoming {
		for k, v := range kv {
			b, hadB := before[d][k]
			a, hasA := after[d][k]
			ctx := fmt.Sprintf("i%d merged %s: %s[%q] stored %v incoming %v -> %v", i, blob, d, k, optVer(b, hadB), v, optVer(a, hasA))
			if !hasA {
				f.res.Violate("merged-key-absent", ctx+": the key is absent after the merge", f.wit(ctx))
				continue
			}
			if hadB && a != b {
				changed = true
			}
			if !hadB {
				changed = true
				if a != v {
					f.res.Violate("merge-wrong-content", ctx+": new key does not carry the incoming version", f.wit(ctx))
				}
				continue
			}
			switch {
			case a != b && a != v:
				f.res.Violate("merge-invented-version", ctx, f.wit(ctx))
			case v.TS > b.TS && a != v:
				f.res.Violate("newer-version-not-taken", ctx, f.wit(ctx))
			case v.TS < b.TS && a != b:
				f.res.Violate("older-version-replaced-newer", ctx, f.wit(ctx))
			case v.TS == b.TS && v != b:
				pk := pairKey(b, v)
				if w, ok := f.tie[pk]; ok && w != a {
					sig := "tie-order-dependent"
					if b.Val == "" && v.Val == "" && b.Del != v.Del {
						sig = "tie-equal-ts-deleted-vs-live-empty"
					}
					f.res.Violate(sig, ctx+fmt.Sprintf(": the same tie was decided for %v elsewhere", w), f.wit(ctx))
				} else {
					f.tie[pk] = a
				}
				f.res.Count("ties_decided", 1)
			}
			// C04: a merged deletion hides the key unless something newer is stored
			if v.Del {
				vis := !a.Del
				if vis && !(a.TS > v.TS || (a.TS == v.TS && f.tie[pairKey(b, v)] == a)) {
					f.res.Violate("deletion-not-applied", ctx+": the key is still visible after merging a deletion that wins", f.wit(ctx))
				}
				f.res.Count("markers_merged", 1)
				if hadB && !b.Del && b.TS < v.TS {
					f.res.Count("marker_met_older_live_version", 1)
				}
			}
			if hadB && b.Del && !v.Del && v.TS <= b.TS && !a.Del && v != b {
				if !(v.TS == b.TS && f.tie[pairKey(b, v)] == a) {
					f.res.Violate("deleted-key-resurrected", ctx+": an older live version brought a deleted key back", f.wit(ctx))
				}
			}
		}
	}
	// keys not in the snapshot must be untouched
	for d, kv := range before {
		for k, b := range kv {
			if _, in := incoming[d][k]; in {
				continue
			}
			if a, ok := after[d][k]; !ok || a != b {
				f.res.Violate("untouched-key-changed", fmt.Sprintf("i%d merged %s: %s[%q] is not in the snapshot but changed from %v to %v", i, blob, d, k, b, optVer(a, ok)), f.wit(""))
			}
		}
	}
	if changed {
		f.res.Count("merges_that_changed_data", 1)
	}
	// application view = live entries (shadow mode: the application DBIs)
	if !f.h.Native {
		av, _ := x.App()
		for d, kv := range after {
			for k, v := range kv {
				got, present := av[d][k]
				if v.Del && present {
					f.res.Violate("app-view-shows-deleted-key", fmt.Sprintf("i%d: %s[%q] is deleted in the merged state but visible to the application (%q)", i, d, k, got), f.wit(""))
				}
				if !v.Del && (!present || got != v.Val) {
					sig := "app-view-differs-from-merged-state"
					if v.Val == "" {
						sig = "shadow-live-empty-value-removed"
					}
					f.res.Violate(sig, fmt.Sprintf("i%d: %s[%q] merged state %v, application sees present=%v %q", i, d, k, v, present, got), f.wit(""))
				}
			}
		}
	}
	return nil
}

func optVer(v inst.Ver, ok bool) string {
	if !ok {
		return "absent"
	}
	return v.String()
}

// closing phase: everyone uploads, everyone merges every newest blob, until nothing changes.
func (f *fleet) converge() (rounds int, err error) {
	for rounds = 1; rounds <= f.h.NInst+3; rounds++ {
		newest := map[int]string{}
		for i := range f.insts {
			blob, err := f.upload(i)
			if err != nil {
				return rounds, err
			}
			if blob != "" {
				newest[i] = blob
			} else if bs := f.blobsOf[i]; len(bs) > 0 {
				newest[i] = bs[len(bs)-1]
			}
		}
		anyChange := false
		for i, x := range f.insts {
			before, _, _ := lmdbx.DumpEnv(x.Env)
			for j := range f.insts {
				if j == i || newest[j] == "" {
					continue
				}
				if err := f.merge(i, newest[j]); err != nil {
					return rounds, err
				}
			}
			after, _, _ := lmdbx.DumpEnv(x.Env)
			bl, _ := inst.LogicalOf(before, f.h.Native)
			al, _ := inst.LogicalOf(after, f.h.Native)
			if inst.DiffState(bl, al) != "" {
				anyChange = true
			}
		}
		if !anyChange {
			return rounds, nil
		}
	}
	return rounds, nil
}

func (f *fleet) finalOracle(rounds int) inst.State {
	if rounds > f.h.NInst+1 {
		f.res.Violate("no-convergence-within-n-plus-1-rounds", fmt.Sprintf("after %d full exchange rounds instances still change (N=%d)", rounds, f.h.NInst), f.wit(""))
	}
	states := make([]inst.State, len(f.insts))
	for i, x := range f.insts {
		states[i], _ = x.Logical()
	}
	for i := 1; i < len(states); i++ {
		if df := inst.DiffState(states[0], states[i]); df != "" {
			sig := "replicas-diverge"
			if strings.Contains(df, `,"")`) && strings.Contains(df, "deleted") {
				sig = "replicas-diverge-deleted-vs-live-empty"
			}
			f.res.Violate(sig, fmt.Sprintf("after the closing phase i0 and i%d differ: %s", i, df), f.wit(""))
		}
	}
	if !f.h.Native {
		a0, _ := f.insts[0].App()
		for i := 1; i < len(f.insts); i++ {
			ai, _ := f.insts[i].App()
			if fmt.Sprint(a0) != fmt.Sprint(ai) {
				f.res.Violate("application-dbis-diverge", fmt.Sprintf("application DBIs of i0 and i%d differ after the closing phase", i), f.wit(""))
			}
		}
	}
	// content = an argmax-timestamp version of everything ever written
	conflicts := 0
	for id, vs := range f.versions {
		parts := strings.SplitN(id, "\x00", 2)
		var max uint64
		for v := range vs {
			if v.TS > max {
				max = v.TS
			}
		}
		got, ok := states[0][parts[0]][parts[1]]
		if len(vs) >= 2 {
			conflicts++
		}
		if !ok {
			f.res.Violate("written-key-missing", fmt.Sprintf("%s[%q] was written (%d versions) but is absent from the converged state", parts[0], parts[1], len(vs)), f.wit(""))
			continue
		}
		if got.TS != max || !vs[got] {
			var all []string
			for v := range vs {
				all = append(all, v.String())
			}
			sort.Strings(all)
			f.res.Violate("not-the-lww-winner", fmt.Sprintf("%s[%q] converged to %v; versions ever written: %v (highest timestamp %d)", parts[0], parts[1], got, all, max), f.wit(""))
		}
	}
	f.res.Count("keys_with_conflicting_versions", int64(conflicts))
	return states[0]
}

// noopMerges (C10): re-merging everything changes neither LastTxnID nor a byte.
func (f *fleet) noopMerges(r *rng.R) {
	names := f.b.Names()
	for i, x := range f.insts {
		order := append([]string{}, names...)
		rng.Shuffle(r, order)
		for _, n := range order {
			ni, err := snapshot.ParseName(n)
			if err != nil || ni.InstanceID == x.Name && false {
				continue
			}
			before, _, _ := lmdbx.DumpEnv(x.Env)
			lastBefore := lmdbx.LastTxnID(x.Env)
			if _, _, err := x.LoadBlob(f.ctx, n, 0); err != nil {
				f.res.Violate("noop-merge-error", err.Error(), f.wit(n))
				continue
			}
			after, _, _ := lmdbx.DumpEnv(x.Env)
			lastAfter := lmdbx.LastTxnID(x.Env)
			f.res.Count("noop_merges", 1)
			if df := lmdbx.Diff(before, after); df != "" {
				f.res.Violate("noop-merge-changed-bytes", fmt.Sprintf("i%d re-merged %s (nothing newer, no local change) and stored bytes changed: %s", i, n, df), f.wit(n))
			} else if lastAfter != lastBefore {
				f.res.Violate("noop-merge-committed-transaction", fmt.Sprintf("i%d re-merged %s (nothing newer, no local change): LastTxnID %d -> %d", i, n, lastBefore, lastAfter), f.wit(n))
			}
		}
	}
}

var tsPool = []uint64{0, 1, 2, 3, 1 << 40}
var valPool = []string{"", "a", "b", strings.Repeat("long-value-", 28)}

// genOps produces the application history and the interleaved schedule.
// The application history depends only on appSeed; the schedule on schedSeed.
func runHistory(h Hist, env *runner.Env, res *runner.Result, which string, schedSeed uint64, tag string) (inst.State, bool) {
	f, err := newFleet(h, env, res, which, tag)
	if err != nil {
		res.Verdict, res.Msg = runner.Inconclusive, err.Error()
		return nil, false
	}
	defer f.close()
	ar := rng.New(h.Seed)         // application history
	sr := rng.New(schedSeed ^ 77) // interleaving of uploads/merges
	dbis := []string{"d0", "d1", "d2"}[:h.NDBI]
	if h.IntKeys {
		dbis = append(dbis, "di")
	}
	intPool := []uint32{0, 1, 255, 256, 65536, 1 << 31, 1<<32 - 1}
	// per instance: the highest timestamp the application wrote per key (monotone writes)
	localTS := make([]map[string]uint64, h.NInst)
	wrote := make([]map[string]bool, h.NInst)
	for i := range localTS {
		localTS[i] = map[string]uint64{}
		wrote[i] = map[string]bool{}
	}
	appOps := 0
	cr := rng.New(h.Seed ^ 0xC1EA) // own stream: "the application empties a whole DBI" (shadow mode)
	for step := 0; step < h.Ops; step++ {
		if !h.Native && cr.Chance(1, 10) {
			op := appOp{Inst: cr.Intn(h.NInst), DBI: dbis[cr.Intn(len(dbis))], Clear: true}
			if err := f.applyApp(op); err != nil {
				res.Verdict, res.Msg = runner.Inconclusive, "application clear: "+err.Error()
				return nil, false
			}
			res.Count("dbi_emptied_by_application", 1)
			appOps++
		}
		// the application history is generated in lock-step so that it is schedule independent
		if ar.Chance(3, 5) {
			op := appOp{Inst: ar.Intn(h.NInst), DBI: dbis[ar.Intn(len(dbis))], Key: fmt.Sprintf("k%d", ar.Intn(h.NKeys))}
			if h.LongKeys && (op.Key == "k0" || op.Key == "k1") {
				op.Key += strings.Repeat("L", 511-2-int(op.Key[1]-'0'))
				res.Count("ops_on_maximum_size_keys", 1)
			}
			if op.DBI == "di" {
				var kb [4]byte
				binary.LittleEndian.PutUint32(kb[:], intPool[ar.Intn(len(intPool))])
				op.Key = string(kb[:])
			}
			op.Del = ar.Intn(100) < h.DelBias
			op.Val = valPool[ar.Intn(len(valPool))]
			if op.Val == "" && !h.Native && !h.EmptyVals {
				op.Val = "e"
			}
			tsPick := tsPool[ar.Intn(len(tsPool))]
			if h.Native {
				id := op.DBI + "\x00" + op.Key
				// monotone per key per instance (with respect to the application's own
				// writes only, so that the history does not depend on the delivery order)
				cur := localTS[op.Inst][id]
				if wrote[op.Inst][id] && tsPick <= cur {
					found := false
					for _, t := range tsPool {
						if t > cur {
							tsPick, found = t, true
							break
						}
					}
					if !found {
						continue
					}
				}
				op.TS = tsPick
				localTS[op.Inst][id] = tsPick
				wrote[op.Inst][id] = true
			}
			if err := f.applyApp(op); err != nil {
				res.Verdict, res.Msg = runner.Inconclusive, "application write: "+err.Error()
				return nil, false
			}
			appOps++
		}
		// schedule: uploads and merges of any stored blob
		for k := 0; k < sr.Intn(3); k++ {
			i := sr.Intn(h.NInst)
			if sr.Bool() {
				if _, err := f.upload(i); err != nil {
					res.Violate("sendonce-error", fmt.Sprintf("SendOnce on i%d failed: %v", i, err), f.wit(""))
					return nil, false
				}
			} else {
				var cands []string
				for j, bs := range f.blobsOf {
					if j != i {
						cands = append(cands, bs...)
					}
				}
				if len(cands) == 0 {
					continue
				}
				sort.Strings(cands)
				if err := f.merge(i, cands[sr.Intn(len(cands))]); err != nil {
					res.Violate("loadonce-error", fmt.Sprintf("LoadOnce on i%d failed: %v", i, err), f.wit(""))
					return nil, false
				}
			}
		}
	}
	rounds, err := f.converge()
	if err != nil {
		res.Violate("closing-phase-error", err.Error(), f.wit(""))
		return nil, false
	}
	res.Count("closing_rounds", int64(rounds))
	res.Add("closing_rounds_needed", fmt.Sprint(rounds))
	final := f.finalOracle(rounds)
	if which == "C10" {
		f.noopMerges(sr)
	}
	res.Count("application_ops", int64(appOps))
	res.Count("histories", 1)
	nontrivial := res.Obs["keys_with_conflicting_versions"] > 0 && res.Obs["merges_that_changed_data"] > 0
	return final, nontrivial
}

// RunHist runs one history under h.Orders delivery orders.
func RunHist(h Hist, env *runner.Env, res *runner.Result, which string) {
	first, nt := runHistory(h, env, res, which, h.Seed, "o0")
	if first == nil {
		return
	}
	res.NonTrivial = nt
	if h.Native {
		for o := 1; o < h.Orders; o++ {
			other, _ := runHistory(h, env, res, which, h.Seed+uint64(o)*7919, fmt.Sprintf("o%d", o))
			if other == nil {
				return
			}
			if df := inst.DiffState(first, other); df != "" {
				res.Violate("result-depends-on-delivery-order", fmt.Sprintf("the same application history converged to different content under delivery order %d: %s", o, df), map[string]any{"history": h})
			}
			res.Count("delivery_orders_compared", 1)
		}
	}
	if !h.Native && h.EmptyVals && res.Verdict == runner.Violated {
		// sub-family of the known finding: a live empty value is removed by the projection and
		// re-captured as a deletion; every divergence from the model in these histories has that root cause
		res.Sig = "shadow-live-empty-value-removed"
		res.More = nil
	}
	res.Sample = map[string]any{"history": h, "application_ops": res.Obs["application_ops"], "merges": res.Obs["merges"], "uploads": res.Obs["uploads"], "conflict_keys": res.Obs["keys_with_conflicting_versions"]}
}

// checkWrittenValues (C14 write monitor): every value of a timestamped DBI that a Lightning Stream transaction
// changed must carry a well-formed version-0 header with the id of that transaction.
func (f *fleet) checkWrittenValues(i int, before, after lmdbx.Dump, lastBefore, lastAfter int64, what string) {
	for name, dd := range after {
		timestamped := (f.h.Native && !strings.HasPrefix(name, "_sync")) || (!f.h.Native && strings.HasPrefix(name, inst.ShadowPrefix))
		if !timestamped {
			continue
		}
		old := map[string][]byte{}
		if od := before[name]; od != nil {
			for _, kv := range od.KVs {
				old[string(kv.K)] = kv.V
			}
		}
		for _, kv := range dd.KVs {
			if string(old[string(kv.K)]) == string(kv.V) {
				continue
			}
			f.res.Count("written_values_checked", 1)
			h, _, err := hdr.WellFormedLS(kv.V, 0)
			if err != nil {
				f.res.Violate("written-header-malformed", fmt.Sprintf("i%d %s: %s[%q] written value is not well-formed: %v", i, what, name, kv.K, err), f.wit(what))
				continue
			}
			if int64(h.TxnID) <= lastBefore || int64(h.TxnID) > lastAfter {
				f.res.Violate("written-txnid-field", fmt.Sprintf("i%d %s: %s[%q] carries transaction id %d, LastTxnID before %d after %d", i, what, name, kv.K, h.TxnID, lastBefore, lastAfter), f.wit(what))
			}
			wantExtra := 0
			if f.h.Padding && f.h.Native {
				wantExtra = 1
			}
			if h.NumExtra != wantExtra {
				f.res.Violate("written-header-extension-count", fmt.Sprintf("i%d %s: %s[%q] has %d extension blocks, expected %d", i, what, name, kv.K, h.NumExtra, wantExtra), f.wit(what))
			}
		}
	}
}
