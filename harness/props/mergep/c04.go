package mergep

import (
	"context"
	"fmt"
	"github.com/PowerDNS/lightningstream/snapshot"
	"sort"
	"time"

	"github.com/PowerDNS/lmdb-go/lmdb"

	"github.com/PowerDNS/lightningstream/config"
	"github.com/PowerDNS/lightningstream/syncer/sweeper"

	"verif/bucket"
	"verif/hdr"
	"verif/inst"
	"verif/lmdbx"
	"verif/lsx"
	"verif/rng"
	"verif/runner"
	"verif/sched"
	"verif/wire"
)

type sweepScn struct {
	Seed     uint64  `json:"seed"`
	RetDays  float32 `json:"retention_days"`
	CutoffNS int64   `json:"retention_load_cutoff_ns"`
	DelayMS  int     `json:"delay_ms"` // artificial delay between the sweep and the load
	Format   uint32  `json:"format"`   // snapshot format version of the remote snapshot (1: deletions are empty values)
	// SnapAgePct: the remote snapshot was taken this many percent of the retention ago (the last snapshot of an idle
	// or decommissioned instance); it carries only markers that existed then
	SnapAgePct int `json:"snapshot_age_pct_of_retention,omitempty"`
}

// staleCopyScn: an instance is started on an LMDB that holds application data but no timestamped state for it (a copy
// or backup, a key added while the syncer was down), while the bucket already carries the deletion of one of the keys.
type staleCopyScn struct {
	ReceiveOnly bool `json:"receive_only"`
	HoursAgo    int  `json:"deleted_hours_ago"`
}

type c04Params struct {
	Hist   *Hist `json:"hist,omitempty"`
	Config *struct {
		Seed  uint64 `json:"seed"`
		Count int    `json:"count"`
	} `json:"config,omitempty"`
	Sweep *sweepScn     `json:"sweep,omitempty"`
	Stale *staleCopyScn `json:"stale_copy,omitempty"`
}

var retDaysGrid = []float32{0, 1e-6, 1e-3, 0.1, 0.5, 1, 1.03, 370, 1e5}

func cutoffGrid(rd time.Duration) []time.Duration {
	return []time.Duration{-time.Hour, -time.Nanosecond, 0, time.Nanosecond, rd / 100, rd * 749 / 1000, rd * 3 / 4, rd * 751 / 1000, rd, rd * 10, time.Hour, 24 * time.Hour}
}

func C04() *runner.Property {
	return &runner.Property{
		ID: "C04", Level: "exploration",
		Rule: driveRule + "with a delete-heavy mix (40-60% deletes). Step oracle per merged deletion marker (k,T): the key is invisible afterwards unless a version with a higher timestamp (or the consistent tie winner) is stored, an older live version arriving later never brings it back; every uploaded snapshot equals the LMDB's logical content including all deletion markers. " +
			"config: on the real config.Sweeper methods, for retention_days in {0,1e-6,1e-3,0.1,0.5,1,1.03,370,1e5} x retention_load_cutoff_duration in {-1h,-1ns,0,1ns,1%,74.9%,75%,75.1%,100%,1000% of the retention,1h,24h} and random pairs: RetentionDurationMinusCutoff() <= RetentionDuration(), hence for all t_sweep <= t_load: t_load - RDMC >= t_sweep - RD. " +
			"sweep: end to end, a native instance holds markers on a grid around now-retention, one real sweeper pass runs, then LoadOnce merges another instance's snapshot that still carries all those markers (also after an artificial delay, also a snapshot taken 2% or 50% of the retention ago, also markers for keys of which the instance holds an older live version - those must be deleted whatever their age): no marker older than the sweep cutoff exists afterwards for a key the instance had no entry for, markers much younger than the cutoff are added. " +
			"Non-trivial = a marker met an older live version (histories), distinct config pair, or markers on both sides of both cutoffs (sweep).",
		Assumptions: []string{"clock reads inside sweep/LoadOnce are bracketed; markers inside the brackets are not judged", "retention model = retention_days x 24h, tolerance 1 s + float32 rounding"},
		BatchSize:   10, CaseTimeout: 180e9,
		MinNonTrivial: func(string) int { return 30 },
		Cases: func(tier string, seed int64) []runner.Case {
			var cs []runner.Case
			n := 150
			if tier == "thorough" {
				n = 2500
			}
			for _, c := range histCases(tier, seed, 0xC04, []int{40, 60, 50}, n, 1) {
				var h Hist
				runner.Params(c, &h)
				if h.EmptyVals {
					continue
				}
				cs = append(cs, runner.MkCase("hist-"+c.Family, c.ID, c04Params{Hist: &h}))
			}
			r := rng.New(uint64(seed) ^ 0xC04C)
			nc := 4
			if tier == "thorough" {
				nc = 40
			}
			for i := 0; i < nc; i++ {
				cs = append(cs, runner.MkCase("config", fmt.Sprint(i), c04Params{Config: &struct {
					Seed  uint64 `json:"seed"`
					Count int    `json:"count"`
				}{r.U64(), 25000}}))
			}
			// sweep scenarios: retention x cutoff grid (small retentions so that the grid is cheap to populate)
			for _, rd := range []float32{0.1, 0.5, 1, 1.03, 1.5, 7} {
				R := time.Duration(float64(rd) * float64(24*time.Hour))
				for _, co := range []time.Duration{-2 * time.Hour, -time.Nanosecond, 0, time.Nanosecond, R / 100, R / 2, R * 3 / 4, R, R * 10} {
					for _, d := range []int{0, 30} {
						if d > 0 && tier != "thorough" && co != 0 {
							continue
						}
						cs = append(cs, runner.MkCase("sweep", fmt.Sprintf("rd%v-co%v-d%d", rd, co, d), c04Params{Sweep: &sweepScn{Seed: r.U64(), RetDays: rd, CutoffNS: int64(co), DelayMS: d, Format: 3}}))
						if d == 0 && (co == 0 || co == R/100) {
							for _, age := range []int{2, 50} {
								cs = append(cs, runner.MkCase("sweep", fmt.Sprintf("rd%v-co%v-d%d-oldsnap%d", rd, co, d, age), c04Params{Sweep: &sweepScn{Seed: r.U64(), RetDays: rd, CutoffNS: int64(co), DelayMS: d, Format: 3, SnapAgePct: age}}))
							}
							for _, f := range []uint32{1, 2} {
								cs = append(cs, runner.MkCase("sweep", fmt.Sprintf("rd%v-co%v-d%d-format%d", rd, co, d, f), c04Params{Sweep: &sweepScn{Seed: r.U64(), RetDays: rd, CutoffNS: int64(co), DelayMS: d, Format: f}}))
							}
						}
					}
				}
			}
			for _, ro := range []bool{true, false} {
				for _, h := range []int{1, 48, 24 * 400} {
					cs = append(cs, runner.MkCase("stale-copy", fmt.Sprintf("recvonly=%v-deleted-%dh-ago", ro, h), c04Params{Stale: &staleCopyScn{ReceiveOnly: ro, HoursAgo: h}}))
				}
			}
			return cs
		},
		Run: func(c runner.Case, env *runner.Env) (res runner.Result) {
			var p c04Params
			runner.Params(c, &p)
			res.Key = c.ID
			switch {
			case p.Hist != nil:
				RunHist(*p.Hist, env, &res, "C04")
				res.NonTrivial = res.NonTrivial && res.Obs["marker_met_older_live_version"] > 0
			case p.Config != nil:
				runConfig(p.Config.Seed, p.Config.Count, &res)
			case p.Sweep != nil:
				runSweep(*p.Sweep, env, &res)
			case p.Stale != nil:
				runStaleCopy(*p.Stale, env, &res)
			}
			return
		},
	}
}

func runConfig(seed uint64, count int, res *runner.Result) {
	r := rng.New(seed)
	check := func(days float32, cutoff time.Duration) {
		sw := config.Sweeper{Enabled: true, RetentionDays: days, RetentionLoadCutoffDuration: cutoff}
		rd, rdmc := sw.RetentionDuration(), sw.RetentionDurationMinusCutoff()
		res.Count("config_pairs", 1)
		if rdmc > rd {
			res.Violate("load-cutoff-older-than-sweep-cutoff", fmt.Sprintf("retention_days=%v retention_load_cutoff_duration=%v: RetentionDurationMinusCutoff()=%v > RetentionDuration()=%v: a load at t >= t_sweep would re-create markers the sweeper has just removed", days, cutoff, rdmc, rd),
				map[string]any{"retention_days": days, "cutoff": cutoff.String()})
		}
		if rdmc < 0 && rd >= 0 {
			res.Violate("negative-load-retention", fmt.Sprintf("retention_days=%v cutoff=%v: RetentionDurationMinusCutoff()=%v", days, cutoff, rdmc), nil)
		}
		// the implied inequality for a few time pairs
		ts := time.Unix(1800000000, 0)
		for _, lag := range []time.Duration{0, time.Nanosecond, time.Second, time.Hour} {
			tl := ts.Add(lag)
			if tl.Add(-rdmc).Before(ts.Add(-rd)) {
				res.Violate("load-cutoff-older-than-sweep-cutoff", fmt.Sprintf("days=%v cutoff=%v lag=%v: t_load-RDMC < t_sweep-RD", days, cutoff, lag), nil)
			}
		}
	}
	for _, d := range retDaysGrid {
		rd := config.Sweeper{RetentionDays: d}.RetentionDuration()
		for _, c := range cutoffGrid(rd) {
			check(d, c)
		}
	}
	for i := 0; i < count; i++ {
		d := rng.Pick(r, float32(r.Intn(1000))/1000, float32(r.Intn(400)), float32(r.Intn(100000))/7, 1)
		rd := config.Sweeper{RetentionDays: d}.RetentionDuration()
		var c time.Duration
		switch r.Intn(4) {
		case 0:
			c = time.Duration(r.U64()>>1) % (rd*2 + 1)
		case 1:
			c = -time.Duration(r.U64() >> 20)
		case 2:
			c = rd*time.Duration(r.Intn(200))/100 - time.Duration(r.Intn(3))
		default:
			c = time.Duration(r.Intn(1000)) * time.Minute
		}
		check(d, c)
	}
	res.NonTrivial = true
	res.Sample = map[string]any{"config_pairs": res.Obs["config_pairs"]}
}

func runSweep(sc sweepScn, env *runner.Env, res *runner.Result) {
	r := rng.New(sc.Seed)
	b := bucket.New()
	conf := lsx.FastConfig("a")
	conf.Sweeper = config.Sweeper{Enabled: true, RetentionDays: sc.RetDays, RetentionLoadCutoffDuration: time.Duration(sc.CutoffNS), LockDuration: 50 * time.Millisecond, ReleaseDuration: time.Millisecond, Interval: time.Hour, FirstInterval: time.Hour}
	a, err := inst.New(env.Dir("c04sweep"), b, db, "a", inst.Opt{Native: true, Conf: &conf})
	if err != nil {
		res.Verdict, res.Msg = runner.Inconclusive, err.Error()
		return
	}
	defer a.Close()
	R := time.Duration(float64(sc.RetDays) * float64(24*time.Hour))
	tol := time.Second + R/(1<<22)
	start := time.Now()
	// the grid of marker ages relative to now - R
	offsets := []time.Duration{-time.Hour, -10 * time.Minute, -time.Minute, -10 * time.Second, 10 * time.Second, time.Minute, 10 * time.Minute, time.Hour, R / 2, R * 9 / 10}
	type mk struct {
		key   string
		ts    uint64
		local bool // A holds the marker itself before the sweep
	}
	var marks []mk
	snapTime := start.Add(-R * time.Duration(sc.SnapAgePct) / 100)
	type ol struct {
		key      string
		liveTS   uint64
		markerTS uint64
	}
	var olds []ol // keys for which A holds an OLDER LIVE version and the remote snapshot a marker (stale or not)
	for i, off := range offsets {
		{
			t := start.Add(-R + off)
			if off < 0 {
				t = t.Add(-tol)
			} else {
				t = t.Add(tol)
			}
			if !t.After(snapTime) {
				olds = append(olds, ol{fmt.Sprintf("o-%02d", i), uint64(t.Add(-time.Hour).UnixNano()), uint64(t.UnixNano())})
			}
		}
		for j := 0; j < 3; j++ {
			// negative off = older than the cutoff
			t := start.Add(-R + off)
			if off < 0 {
				t = t.Add(-tol)
			} else {
				t = t.Add(tol)
			}
			if t.After(snapTime) {
				continue // the snapshot cannot carry a marker younger than itself
			}
			marks = append(marks, mk{fmt.Sprintf("m-%02d-%d", i, j), uint64(t.UnixNano()), j != 2})
		}
	}
	_, err = lmdbx.Update(a.Env, func(txn *lmdb.Txn) error {
		if err := inst.NativePut(txn, "d", []byte("live"), uint64(start.UnixNano()), false, []byte("v")); err != nil {
			return err
		}
		for _, m := range marks {
			if m.local {
				if err := inst.NativePut(txn, "d", []byte(m.key), m.ts, true, nil); err != nil {
					return err
				}
			}
		}
		for _, o := range olds {
			if err := inst.NativePut(txn, "d", []byte(o.key), o.liveTS, false, []byte("older-live")); err != nil {
				return err
			}
		}
		return nil
	})
	if err != nil {
		res.Verdict, res.Msg = runner.Inconclusive, err.Error()
		return
	}
	// the remote snapshot still carries every marker
	rs := &wire.Snap{FormatVersion: sc.Format, CompatVersion: 1, Meta: wire.Meta{DatabaseName: db, InstanceID: "r", GenerationID: "GX", TimestampNano: uint64(snapTime.UnixNano())}}
	d := wire.DBI{Name: "d"}
	type ent struct {
		key string
		ts  uint64
	}
	var ents []ent
	for _, m := range marks {
		ents = append(ents, ent{m.key, m.ts})
	}
	for _, o := range olds {
		ents = append(ents, ent{o.key, o.markerTS})
	}
	sort.Slice(ents, func(i, j int) bool { return ents[i].key < ents[j].key })
	for _, m := range ents {
		kv := wire.KV{Key: []byte(m.key), TS: m.ts, Flags: 1}
		if sc.Format < 2 {
			kv.Flags = 0 // version 1: a deletion is an entry with an empty value
		}
		d.Entries = append(d.Entries, kv)
	}
	rs.DBIs = []wire.DBI{d}
	sw := sweeper.New("c04-"+fmt.Sprint(r.Intn(1<<30)), conf.Sweeper, a.Env, lsx.NullLogger(), true)
	s0 := time.Now()
	if err := sw.VerifSweepOnce(context.Background()); err != nil {
		res.Violate("sweep-error", err.Error(), map[string]any{"scenario": sc})
		return
	}
	afterSweep, _ := a.Logical()
	s1 := time.Now()
	// the sweeper must not be more eager than the configured retention: a marker it removes although it is younger is
	// re-created by the next snapshot that still carries it (markers bounce), and while it is gone an older live version
	// from a stale instance brings the key back
	for _, m := range marks {
		if m.local && m.ts >= uint64(s1.Add(-R+tol).UnixNano()) {
			if _, ok := afterSweep["d"][m.key]; !ok {
				res.Violate("young-marker-swept", fmt.Sprintf("marker %s is %v old, the retention is %v, the sweeper removed it", m.key, s1.Sub(time.Unix(0, int64(m.ts))), R), map[string]any{"scenario": sc})
			}
			res.Count("young_local_markers_checked_after_sweep", 1)
		}
	}
	if sc.DelayMS > 0 {
		time.Sleep(time.Duration(sc.DelayMS) * time.Millisecond)
	}
	if _, _, err := a.LoadSnap(context.Background(), rs, "r", snapTime, 0); err != nil {
		res.Violate("loadonce-error", err.Error(), map[string]any{"scenario": sc})
		return
	}
	l1 := time.Now()
	final, _ := a.Logical()
	res.Count("sweep_scenarios", 1)
	older, younger := 0, 0
	wit := map[string]any{"scenario": sc, "retention": R.String()}
	for _, m := range marks {
		_, hadAfterSweep := afterSweep["d"][m.key]
		v, has := final["d"][m.key]
		sweptCut := uint64(s0.Add(-R - tol).UnixNano())
		switch {
		case m.ts < sweptCut:
			older++
			if hadAfterSweep {
				res.Violate("expired-marker-survived-sweep", fmt.Sprintf("marker %s (%v before the cutoff) survived the sweep", m.key, time.Duration(sweptCut-m.ts)), wit)
			}
			if has {
				res.Violate("swept-marker-recreated", fmt.Sprintf("marker %s, older than the retention cutoff at sweep time by %v, exists after merging a remote snapshot (local before the sweep: %v) - swept markers bounce", m.key, time.Duration(sweptCut-m.ts), m.local), wit)
			}
		case m.ts >= uint64(l1.Add(-R/5).UnixNano()):
			younger++
			if !has || !v.Del {
				res.Violate("young-marker-not-propagated", fmt.Sprintf("marker %s (age %v, retention %v) was not added by the merge", m.key, l1.Sub(time.Unix(0, int64(m.ts))), R), wit)
			}
		}
	}
	// a marker - stale or not - is newer than the older live version the instance still holds: it must win
	for _, o := range olds {
		v, has := final["d"][o.key]
		if has && !v.Del {
			res.Violate("marker-did-not-delete-older-live-version", fmt.Sprintf("the remote snapshot carries a deletion of %s at %v; the instance held a live version one hour older; after the merge the key is still live %v (marker age %v, retention %v)", o.key, time.Unix(0, int64(o.markerTS)).UTC(), v, l1.Sub(time.Unix(0, int64(o.markerTS))), R), wit)
		}
		res.Count("markers_meeting_older_live_version", 1)
	}
	if v, ok := final["d"]["live"]; !ok || v.Del {
		res.Violate("live-entry-lost", "the live entry disappeared", wit)
	}
	// every stored value is still well-formed
	if dd, _, err := lmdbx.DumpEnv(a.Env); err == nil {
		for _, kv := range dd["d"].KVs {
			if _, _, err := hdr.Read(kv.V); err != nil {
				res.Violate("value-unreadable", err.Error(), wit)
			}
		}
	}
	res.Count("markers_older_than_cutoff", int64(older))
	res.Count("markers_much_younger", int64(younger))
	res.NonTrivial = older > 0 && younger > 0
	res.Sample = map[string]any{"scenario": sc, "markers": len(marks), "older": older, "younger": younger}
}

func runStaleCopy(sc staleCopyScn, env *runner.Env, res *runner.Result) {
	b := bucket.New()
	s := sched.New()
	defer s.Close()
	opt := inst.Opt{Native: false}
	opt.Options.ReceiveOnly = sc.ReceiveOnly
	x, err := inst.New(env.Dir("c04stale"), b, db, "r", opt)
	if err != nil {
		res.Verdict, res.Msg = runner.Inconclusive, err.Error()
		return
	}
	defer x.Close()
	// application data without any timestamped state
	_, _ = lmdbx.Update(x.Env, func(txn *lmdb.Txn) error {
		if err := lmdbx.Put(txn, "d", 0, []byte("foo"), []byte("v1")); err != nil {
			return err
		}
		return lmdbx.Put(txn, "d", 0, []byte("keep"), []byte("x"))
	})
	// the other instance wrote both keys long ago and deleted foo HoursAgo hours ago
	tDel := time.Now().Add(-time.Duration(sc.HoursAgo) * time.Hour)
	tPut := tDel.Add(-time.Hour)
	rs := &wire.Snap{FormatVersion: 3, CompatVersion: 1, Meta: wire.Meta{DatabaseName: db, InstanceID: "a", GenerationID: "GX", TimestampNano: uint64(tDel.UnixNano())},
		DBIs: []wire.DBI{{Name: "d", Entries: []wire.KV{
			{Key: []byte("foo"), TS: uint64(tDel.UnixNano()), Flags: 1},
			{Key: []byte("keep"), Val: []byte("x"), TS: uint64(tPut.UnixNano())},
			{Key: []byte("other"), Val: []byte("o"), TS: uint64(tPut.UnixNano())}}}}}
	name := snapshot.Name(db, "a", "GX", tDel)
	b.Put(name, wire.Gzip(wire.EncodeSnapshot(rs)))
	loop := sched.Start(x, s)
	defer loop.Stop(5 * time.Second)
	if ok, why := loop.WaitQuiescent([]string{name}, 5, 20*time.Second); !ok {
		if err, c, fin := loop.Result(); fin {
			res.Violate("sync-ended", fmt.Sprintf("Sync ended (err=%v crashed=%v)", err, c), map[string]any{"scenario": sc, "events_tail": s.Tail(40)})
			return
		}
		res.Verdict, res.Msg = runner.Inconclusive, "no quiescence: "+why
		return
	}
	// a few more capture rounds: a later local capture must not re-stamp the stale copy over the marker either
	_, _ = lmdbx.Update(x.Env, func(txn *lmdb.Txn) error { return lmdbx.Put(txn, "d", 0, []byte("local-later"), []byte("l")) })
	loop.WaitQuiescent(nil, 5, 20*time.Second)
	av, _ := x.App()
	res.Count("stale_copy_scenarios", 1)
	wit := map[string]any{"scenario": sc, "app": fmt.Sprint(av), "events_tail": s.Tail(40)}
	if v, ok := av["d"]["foo"]; ok {
		res.Violate("deleted-key-resurrected", fmt.Sprintf("foo was deleted on instance a %d h ago; instance r was started on an LMDB still holding foo=%q without timestamped state (receive-only=%v): after merging a's snapshot the key is still visible", sc.HoursAgo, v, sc.ReceiveOnly), wit)
	}
	if av["d"]["other"] != "o" || av["d"]["keep"] != "x" {
		res.Violate("remote-data-not-merged", "the remote snapshot's live entries are not in the application DBI", wit)
	}
	res.NonTrivial = true
}
