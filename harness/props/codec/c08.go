package codec

import (
	"bytes"
	"compress/gzip"
	"encoding/binary"
	"fmt"
	"io"
	"os"
	"path/filepath"
	"runtime"
	"runtime/debug"
	"time"

	"github.com/PowerDNS/lightningstream/snapshot"

	"verif/rng"
	"verif/runner"
	"verif/wire"
)

// ---------------------------------------------------------------- generators

type c08Params struct {
	Gen   string `json:"gen"` // g1-raw g1-gz g2-trunc g2-flip-pb g2-flip-gz g3-struct g4-gzip
	Seed  uint64 `json:"seed"`
	Count int    `json:"count"`
}

var hostileLens = func() []uint64 {
	v := []uint64{0, 1, 2, 1<<31 - 1, 1 << 31, 1 << 32, 1<<63 - 1, 1 << 63}
	for k := uint64(1); k <= 16; k++ {
		v = append(v, -k) // 2^64 - k
	}
	return v
}()

// smallSnap is a valid snapshot used as mutation base.
func smallSnap(r *rng.R) *wire.Snap {
	cl := rng.Pick(r, "small", "small", "lens")
	s := Gen(GenParams{Seed: r.U64(), Class: cl})
	// keep it light: at most 3 DBIs with at most 8 entries with short values
	if len(s.DBIs) > 3 {
		s.DBIs = s.DBIs[:3]
	}
	if len(s.DBIs) == 0 {
		s.DBIs = append(s.DBIs, wire.DBI{Name: "d"})
	}
	for i := range s.DBIs {
		d := &s.DBIs[i]
		if len(d.Entries) > 8 {
			d.Entries = d.Entries[:8]
		}
		if len(d.Entries) == 0 {
			d.Entries = append(d.Entries, wire.KV{Key: []byte("k"), Val: []byte("v"), TS: 5})
		}
		for j := range d.Entries {
			if len(d.Entries[j].Val) > 300 {
				d.Entries[j].Val = d.Entries[j].Val[:300]
			}
		}
	}
	return s
}

// rawField encodes a field with an arbitrary declared length / tag.
func rawTagLen(tag uint64, tagRaw []byte, declLen uint64, lenRaw []byte, payload []byte) []byte {
	var b []byte
	if tagRaw != nil {
		b = append(b, tagRaw...)
	} else {
		b = wire.AppendVarint(b, tag, 0)
	}
	if lenRaw != nil {
		b = append(b, lenRaw...)
	} else {
		b = wire.AppendVarint(b, declLen, 0)
	}
	return append(b, payload...)
}

var elevenByteVarint = []byte{0x80, 0x80, 0x80, 0x80, 0x80, 0x80, 0x80, 0x80, 0x80, 0x80, 0x01}
var tenByteOverflow = []byte{0xff, 0xff, 0xff, 0xff, 0xff, 0xff, 0xff, 0xff, 0xff, 0x7f}

// mutateStruct replaces, at 1-3 nodes of the tree, a length or a tag by a hostile value.
func mutateStruct(t *wire.Msg, r *rng.R) (desc []string) {
	type node struct {
		m     *wire.Msg
		i     int
		level int
	}
	var nodes []node
	var collect func(m *wire.Msg, level int)
	collect = func(m *wire.Msg, level int) {
		for i := range m.F {
			nodes = append(nodes, node{m, i, level})
			if m.F[i].Sub != nil {
				collect(m.F[i].Sub, level+1)
			}
		}
	}
	collect(t, 0)
	n := 1 + r.Intn(3)
	for k := 0; k < n && len(nodes) > 0; k++ {
		nd := nodes[r.Intn(len(nodes))]
		f := &nd.m.F[nd.i]
		if f.Raw != nil {
			continue
		}
		payload := f.B
		if f.Sub != nil {
			payload = f.Sub.Encode()
		}
		tag := f.Num<<3 | uint64(f.WT)
		switch kind := r.Intn(7); kind {
		case 0, 1, 2: // hostile length on a length-delimited field (or turn the field into one)
			l := hostileLens[r.Intn(len(hostileLens))]
			if r.Chance(1, 4) {
				l = uint64(len(payload)) + uint64(rng.Pick(r, 1, 2, 100)) // len+1
			} else if r.Chance(1, 4) && len(payload) > 0 {
				l = uint64(len(payload)) - 1
			}
			f.Raw = rawTagLen(f.Num<<3|wire.WTBytes, nil, l, nil, payload)
			desc = append(desc, fmt.Sprintf("L%d.f%d len=%d(real %d)", nd.level, f.Num, l, len(payload)))
		case 3: // weird length varint encodings
			lr := rng.Pick(r, elevenByteVarint, tenByteOverflow, []byte{0x80}, []byte{0xff, 0xff})
			f.Raw = rawTagLen(f.Num<<3|wire.WTBytes, nil, 0, lr, payload)
			desc = append(desc, fmt.Sprintf("L%d.f%d lenraw=%x", nd.level, f.Num, lr))
		case 4: // tag 0 / reserved wire types
			wt := rng.Pick(r, uint64(3), 4, 6, 7)
			nt := f.Num<<3 | wt
			if r.Chance(1, 4) {
				nt = 0
			}
			f.Raw = rawTagLen(nt, nil, uint64(len(payload)), nil, payload)
			desc = append(desc, fmt.Sprintf("L%d.f%d tag=%d", nd.level, f.Num, nt))
		case 5: // weird tag varint
			tr := rng.Pick(r, elevenByteVarint, tenByteOverflow, []byte{0x80}, []byte{0xff, 0xff, 0xff, 0xff, 0xff, 0xff, 0xff, 0xff, 0xff, 0x01})
			f.Raw = rawTagLen(0, tr, uint64(len(payload)), nil, payload)
			desc = append(desc, fmt.Sprintf("L%d.f%d tagraw=%x", nd.level, f.Num, tr))
		case 6: // known field with another wire type, or unknown field with truncated fixed payload
			wt := rng.Pick(r, uint64(0), 1, 2, 5)
			var pl []byte
			switch wt {
			case 0:
				pl = wire.AppendVarint(nil, hostileLens[r.Intn(len(hostileLens))], 0)
			case 1:
				pl = r.Bytes(rng.Pick(r, 8, 7, 3, 0))
			case 5:
				pl = r.Bytes(rng.Pick(r, 4, 3, 1, 0))
			case 2:
				pl = wire.AppendVarint(nil, hostileLens[r.Intn(len(hostileLens))], 0)
			}
			num := f.Num
			if r.Bool() {
				num = rng.Pick(r, uint64(5), 9, 15, 100)
			}
			f.Raw = append(wire.AppendVarint(nil, num<<3|wt, 0), pl...)
			desc = append(desc, fmt.Sprintf("L%d.f%d->f%d wt=%d payload=%d", nd.level, f.Num, num, wt, len(pl)))
		}
		_ = tag
	}
	return
}

func gzWrap(pb []byte) []byte { return wire.Gzip(pb) }

// genInput produces the i-th input of a case. Returns the blob, a short
// description and whether it is expected to reach the protobuf parser.
func genInput(p c08Params, i int) (blob []byte, desc string) {
	r := rng.New(p.Seed + uint64(i)*0x9E37)
	switch p.Gen {
	case "g1-raw":
		n := rng.Pick(r, 0, 1, 2, 9, 10, 18, 19, 64, 1000, r.Intn(5000))
		b := r.Bytes(n)
		if r.Bool() && n >= 3 {
			b[0], b[1], b[2] = 0x1f, 0x8b, 8 // gzip magic
		}
		return b, fmt.Sprintf("random %d bytes", n)
	case "g1-gz":
		n := rng.Pick(r, 0, 1, 2, 3, 5, 17, 64, 300, r.Intn(3000))
		b := r.Bytes(n)
		// bias towards plausible tags
		for j := 0; j < len(b); j += 1 + r.Intn(6) {
			b[j] = rng.Pick(r, byte(0x08), 0x12, 0x1a, 0x20, 0x0a, 0x19, 0x22, 0x3a, 0x29, 0x40, b[j])
		}
		return gzWrap(b), fmt.Sprintf("gzip(random %d bytes)", n)
	case "g2-trunc":
		s := smallSnap(r)
		pb := wire.EncodeSnapshot(s)
		cut := r.Intn(len(pb) + 1)
		if r.Chance(1, 3) {
			gz := gzWrap(pb)
			c2 := r.Intn(len(gz) + 1)
			return gz[:c2], fmt.Sprintf("valid blob, gzip stream truncated at %d/%d", c2, len(gz))
		}
		return gzWrap(pb[:cut]), fmt.Sprintf("valid message truncated at %d/%d", cut, len(pb))
	case "g2-flip-pb":
		s := smallSnap(r)
		pb := wire.EncodeSnapshot(s)
		nf := 1 + r.Intn(4)
		for k := 0; k < nf && len(pb) > 0; k++ {
			pos := r.Intn(len(pb))
			pb[pos] ^= 1 << uint(r.Intn(8))
		}
		return gzWrap(pb), fmt.Sprintf("valid message with %d bit flips", nf)
	case "g2-flip-gz":
		s := smallSnap(r)
		gz := gzWrap(wire.EncodeSnapshot(s))
		pos := r.Intn(len(gz))
		gz[pos] ^= 1 << uint(r.Intn(8))
		return gz, fmt.Sprintf("gzip stream bit flip at %d", pos)
	case "g3-struct":
		s := smallSnap(r)
		t := wire.Tree(s)
		if r.Chance(1, 3) {
			unknownAll(t, r, 2)
		}
		d := mutateStruct(t, r)
		return gzWrap(t.Encode()), fmt.Sprintf("structural %v", d)
	case "g3-tiny":
		// tiny hand-made DBI/KV messages around every hostile length
		l := hostileLens[r.Intn(len(hostileLens))]
		var dbi []byte
		switch r.Intn(6) {
		case 0: // entries field with hostile length
			dbi = rawTagLen(2<<3|2, nil, l, nil, r.Bytes(r.Intn(4)))
		case 1: // unknown length-delimited field with hostile length, then an entry
			dbi = rawTagLen(9<<3|2, nil, l, nil, nil)
			dbi = append(dbi, (&wire.Msg{F: []wire.Field{{Num: 2, WT: 2, Sub: wire.KVTree(&wire.KV{Key: []byte("k"), Val: []byte("v")})}}}).Encode()...)
		case 2: // entry whose key has a hostile length
			kv := rawTagLen(1<<3|2, nil, l, nil, []byte("k"))
			dbi = rawTagLen(2<<3|2, nil, uint64(len(kv)), nil, kv)
		case 3: // entry with unknown field with hostile length
			kv := append([]byte{0x0a, 0x01, 'k'}, rawTagLen(7<<3|2, nil, l, nil, nil)...)
			dbi = rawTagLen(2<<3|2, nil, uint64(len(kv)), nil, kv)
		case 4: // name with hostile length
			dbi = rawTagLen(1<<3|2, nil, l, nil, []byte("n"))
		case 5: // entry: value with hostile length followed by valid fields
			kv := append([]byte{0x0a, 0x01, 'k'}, rawTagLen(2<<3|2, nil, l, nil, []byte("vv"))...)
			dbi = rawTagLen(2<<3|2, nil, uint64(len(kv)), nil, kv)
		}
		top := append([]byte{0x08, 0x03}, rawTagLen(3<<3|2, nil, uint64(len(dbi)), nil, dbi)...)
		return gzWrap(top), fmt.Sprintf("tiny dbi with hostile length %d", l)
	case "g4-gzip":
		s := smallSnap(r)
		pb := wire.EncodeSnapshot(s)
		gz := gzWrap(pb)
		switch k := r.Intn(6); k {
		case 0: // bad CRC
			gz[len(gz)-8] ^= 0xff
			return gz, "gzip bad crc"
		case 1: // bad length
			gz[len(gz)-1] ^= 0x55
			return gz, "gzip bad isize"
		case 2: // truncated deflate stream
			return gz[:len(gz)-9-r.Intn(len(gz)/2)], "gzip truncated deflate"
		case 3: // concatenated members
			return append(gz, gzWrap(wire.EncodeSnapshot(smallSnap(r)))...), "gzip two members"
		case 4: // trailing garbage
			return append(gz, r.Bytes(1+r.Intn(20))...), "gzip trailing garbage"
		default: // large expansion: zeros (valid gzip, invalid protobuf: tag 0)
			n := rng.Pick(r, 1<<20, 8<<20, 32<<20)
			var buf bytes.Buffer
			w, _ := gzip.NewWriterLevel(&buf, gzip.BestCompression)
			// a valid DBI entry prefix then zeros inside one huge value
			hdr := []byte{0x08, 0x03, 0x1a}
			inner := []byte{0x0a, 0x01, 'd', 0x12}
			val := make([]byte, n)
			kv := append([]byte{0x0a, 0x01, 'k', 0x12}, wire.AppendVarint(nil, uint64(n), 0)...)
			kvlen := len(kv) + n
			inner = append(inner, wire.AppendVarint(nil, uint64(kvlen), 0)...)
			dbilen := len(inner) + kvlen
			hdr = append(hdr, wire.AppendVarint(nil, uint64(dbilen), 0)...)
			w.Write(hdr)
			w.Write(inner)
			w.Write(kv)
			w.Write(val)
			w.Close()
			return buf.Bytes(), fmt.Sprintf("gzip expansion %d bytes from %d", n, buf.Len())
		}
	}
	return nil, "?"
}

// ---------------------------------------------------------------- monitor

func C08() *runner.Property {
	return &runner.Property{
		ID:    "C08",
		Level: "exploration",
		Rule: "decoder monitor: each generated byte string (random; gzip-wrapped random; valid blobs truncated and bit-flipped at protobuf and gzip level; structurally valid message trees with 1-3 hostile length/tag fields at any nesting level; " +
			"tiny DBI/KV messages around every hostile length; corrupt gzip containers and large expansions) is written to disk, then fed to snapshot.LoadData and every DBI is iterated to the end. Outcome error/ok = held; panic, process death, " +
			"more Next() calls than decompressed bytes (non-termination, logical bound), watchdog hang, or allocation out of proportion = violated. Receiver monitor: hostile blobs placed as newest/middle/only blob of instances in a bucket read by a real Receiver. " +
			"Sync monitor: a real Sync loop with an instance whose newest/only blob is corrupt inside its entries (accepted by LoadData, failing lazily during the merge): Sync must keep running, merge the other instances and the older decodable snapshot within 300 loop iterations, and leave nothing of the corrupt blob in the LMDB. " +
			"Non-trivial = the input passed gzip and reached the hand-written protobuf parser; distinct by input hash.",
		Assumptions: []string{
			"memory bound asserted: bytes allocated during decoding <= 64 x (compressed + decompressed size) + 32 MiB (gzip expansion itself is proportional to the decompressed size, not to the blob)",
			"termination is decided by a logical bound (Next() calls <= decompressed bytes + 1); the wall-clock watchdog only catches loops outside Next()",
		},
		BatchSize:   4,
		CaseTimeout: 3600e9,
		Cases: func(tier string, seed int64) []runner.Case {
			r := rng.New(uint64(seed) ^ 0xC08)
			per := map[string]int{"g1-raw": 4, "g1-gz": 8, "g2-trunc": 8, "g2-flip-pb": 12, "g2-flip-gz": 4, "g3-struct": 24, "g3-tiny": 8, "g4-gzip": 2}
			count := 1000
			if tier == "thorough" {
				count = 5000
				for k := range per {
					per[k] *= 10
				}
			}
			var cs []runner.Case
			for _, g := range []string{"g1-raw", "g1-gz", "g2-trunc", "g2-flip-pb", "g2-flip-gz", "g3-struct", "g3-tiny", "g4-gzip"} {
				for i := 0; i < per[g]; i++ {
					c := count
					if g == "g4-gzip" {
						c = count / 10
					}
					cs = append(cs, runner.MkCase(g, fmt.Sprint(i), c08Params{Gen: g, Seed: r.U64(), Count: c}))
				}
			}
			cs = append(cs, c08ReceiverCases(tier, r)...)
			cs = append(cs, c08SyncCases(tier, r)...)
			return cs
		},
		Run: func(c runner.Case, env *runner.Env) runner.Result {
			if c.Family == "receiver" {
				return runC08Receiver(c, env)
			}
			if c.Family == "sync" || c.Family == "sync-own" {
				return runC08Sync(c, env)
			}
			return runC08(c, env)
		},
	}
}

type decodeOutcome struct {
	ok, reachedPB bool
	entries       int
	err           string
}

// DecodeAll is the monitored operation: LoadData + complete iteration.
// It returns a violation signature ("" if none).
func DecodeAll(blob []byte, decompressed int) (out decodeOutcome, sig, msg string) {
	defer func() {
		if e := recover(); e != nil {
			st := string(debug.Stack())
			sig = "panic:" + runner.PanicSite(st)
			msg = fmt.Sprintf("panic while decoding: %v\n%s", e, st)
		}
	}()
	s, err := snapshot.LoadData(blob)
	if err != nil {
		out.err = err.Error()
		return
	}
	out.ok = true
	bound := decompressed + 1
	for _, d := range s.Databases {
		_ = d.Name()
		_ = d.Flags()
		_ = d.Transform()
		_ = d.ValidateTransform(s.FormatVersion, true)
		_ = d.ValidateTransform(s.FormatVersion, false)
		d.ResetCursor()
		calls := 0
		for {
			kv, err := d.Next()
			calls++
			if err == io.EOF {
				break
			}
			if err != nil {
				out.err = err.Error()
				break
			}
			out.entries++
			_ = kv.MaskedFlags()
			if calls > bound {
				sig = "nonterminating-next"
				msg = fmt.Sprintf("DBI.Next() called %d times on %d decompressed bytes without reaching EOF or an error", calls, decompressed)
				return
			}
		}
	}
	return
}

// decodeWithWatchdog: a single input that keeps the decoder busy for more than 30 s (120 s when replayed alone) is a
// hang; inputs of this size decode in milliseconds, so the bound is four orders of magnitude above normal and the
// whole case is never judged by its total running time (thousands of inputs under CPU contention add up).
func decodeWithWatchdog(blob []byte, decompressed int, replay bool) (decodeOutcome, string, string) {
	type r struct {
		out      decodeOutcome
		sig, msg string
	}
	ch := make(chan r, 1)
	go func() {
		o, s, m := DecodeAll(blob, decompressed)
		ch <- r{o, s, m}
	}()
	limit := 30 * time.Second
	if replay {
		limit = 120 * time.Second
	}
	select {
	case x := <-ch:
		return x.out, x.sig, x.msg
	case <-time.After(limit):
		return decodeOutcome{}, "hang", fmt.Sprintf("decoding one input of %d bytes (%d decompressed) did not finish within %v", len(blob), decompressed, limit)
	}
}

func runC08(c runner.Case, env *runner.Env) (res runner.Result) {
	var p c08Params
	runner.Params(c, &p)
	cur := filepath.Join(env.Scratch, "current-input.bin")
	var ms runtime.MemStats
	distinct := map[string]bool{}
	for i := 0; i < p.Count; i++ {
		blob, desc := genInput(p, i)
		// the input is on disk before it is used: a process-fatal outcome leaves it behind
		_ = os.WriteFile(cur, blob, 0o664)
		pb, gzErr := wire.Gunzip(blob, 256<<20)
		reached := gzErr == nil
		runtime.ReadMemStats(&ms)
		before := ms.TotalAlloc
		out, sig, msg := decodeWithWatchdog(blob, len(pb), env.Replay)
		runtime.ReadMemStats(&ms)
		alloc := ms.TotalAlloc - before
		res.Count("inputs", 1)
		if reached {
			res.Count("reached_protobuf_parser", 1)
			h := runner.HashOf(blob)
			distinct[h] = true
		} else {
			res.Count("rejected_by_gzip", 1)
		}
		switch {
		case out.ok && out.err == "":
			res.Count("outcome_ok", 1)
		case out.ok:
			res.Count("outcome_iter_error", 1)
		default:
			res.Count("outcome_load_error", 1)
		}
		if out.err != "" {
			res.Add("error_kinds", errKind(out.err))
		}
		res.Count("entries_iterated", int64(out.entries))
		wit := map[string]any{"gen": p.Gen, "seed": p.Seed, "index": i, "desc": desc, "blob_hex": fmt.Sprintf("%x", head(blob, 4096)), "blob_len": len(blob)}
		if sig != "" {
			res.Violate(sig, desc+": "+msg, wit)
			if sig == "hang" {
				// the decoder goroutine is still spinning: end this process after the result is recorded
				res.ExitAfter = true
				res.NonTrivial = true
				return
			}
			continue
		}
		limit := uint64(64*(len(blob)+len(pb))) + 32<<20
		if alloc > limit {
			res.Violate("alloc-out-of-proportion", fmt.Sprintf("%s: allocated %d bytes for a blob of %d bytes (%d decompressed), limit %d", desc, alloc, len(blob), len(pb), limit), wit)
		}
		if i == 0 {
			res.Sample = map[string]any{"case": c.ID, "first_input": desc, "blob_len": len(blob), "reached_parser": reached, "outcome_error": out.err}
		}
	}
	os.Remove(cur)
	res.NonTrivial = len(distinct) > 0
	res.Count("distinct_inputs_reaching_parser", int64(len(distinct)))
	return
}

func errKind(e string) string {
	// strip numbers so that kinds stay few
	b := []byte(e)
	out := make([]byte, 0, len(b))
	for _, c := range b {
		if c >= '0' && c <= '9' {
			if len(out) > 0 && out[len(out)-1] == '#' {
				continue
			}
			c = '#'
		}
		out = append(out, c)
	}
	if len(out) > 70 {
		out = out[:70]
	}
	return string(out)
}

var _ = binary.LittleEndian
