// Package codec holds the monitors for C07 (lossless, wire-compatible codec)
// and C08 (hostile blobs).
package codec

import (
	"bytes"
	"fmt"

	"verif/rng"
	"verif/wire"
)

// GenParams selects a generated snapshot deterministically.
type GenParams struct {
	Seed  uint64 `json:"seed"`
	Class string `json:"class"`          // small | lens | many | big | longnames
	Sized bool   `json:"sized"`          // NewDBISize vs NewDBI (growth path)
	Frac  int    `json:"frac,omitempty"` // percent of the needed size to pre-allocate when Sized (0 = 100)
}

var keyLens = []int{1, 2, 127, 128, 511}
var valLens = []int{0, 1, 127, 128, 16383, 16384}
var bigValLens = []int{2097151, 2097152}
var tsVals = []uint64{0, 1, 1 << 63, 1<<64 - 1}

func genStr(r *rng.R, n int) string {
	const al = "abcdefghijklmnopqrstuvwxyz0123456789-_./ ABC~"
	b := make([]byte, n)
	for i := range b {
		b[i] = al[r.Intn(len(al))]
	}
	return string(b)
}

func genKey(r *rng.R, i int, n int) []byte {
	// unique keys: 4-byte index prefix when there is room
	k := r.Bytes(n)
	if n >= 4 {
		k[0], k[1], k[2], k[3] = byte(i>>24), byte(i>>16), byte(i>>8), byte(i)
	} else if n >= 1 {
		k[0] = byte(i)
		if k[0] == 0 && n == 1 {
			k[0] = 1
		}
	}
	return k
}

// Gen builds a snapshot for the class. Names and keys are non-empty (LMDB
// content); everything else ranges over the full domain.
func Gen(p GenParams) *wire.Snap {
	r := rng.New(p.Seed)
	s := &wire.Snap{}
	s.FormatVersion = rng.Pick(r, uint32(0), 1, 2, 3, 3, 3, 4, 1<<32-1)
	s.CompatVersion = rng.Pick(r, uint32(0), 1, 1, 2, 3, 1<<31)
	ml := func() int { return rng.Pick(r, 0, 1, 7, 63, 127, 128, 300) }
	s.Meta = wire.Meta{GenerationID: genStr(r, ml()), InstanceID: genStr(r, ml()), Hostname: genStr(r, ml()), DatabaseName: genStr(r, ml()),
		LmdbTxnID: int64(rng.Pick(r, uint64(0), 1, 127, 128, 1<<31, 1<<62, r.U64()>>1)), FromLmdbTxnID: int64(rng.Pick(r, uint64(0), 0, 5, 1<<40)),
		TimestampNano: rng.Pick(r, uint64(0), 1, 1<<63, 1<<64-1, r.U64())}
	nd := r.Intn(9)
	switch p.Class {
	case "big":
		nd = 1 + r.Intn(2)
	case "hugeval":
		nd = 1
	case "many":
		nd = 1 + r.Intn(3)
	case "longnames":
		nd = 1 + r.Intn(3)
	case "compressible":
		nd = 1 + r.Intn(3)
	}
	for di := 0; di < nd; di++ {
		d := wire.DBI{}
		nl := rng.Pick(r, 1, 2, 16, 127, 128, 511, 1+r.Intn(511))
		if p.Class == "longnames" {
			nl = rng.Pick(r, 512, 900, 979, 980, 990, 1000, 1500, 5000)
		}
		d.Name = fmt.Sprintf("%d", di) + genStr(r, nl-1)
		if len(d.Name) > nl && nl >= 1 {
			d.Name = d.Name[:nl]
		}
		d.Flags = rng.Pick(r, uint64(0), 0, 4, 8, 0x7f, 1<<31, 1<<63, 1<<64-1, r.U64())
		d.Transform = rng.Pick(r, "", "", "dupsort_hack_v1", genStr(r, 1+r.Intn(40)))
		if r.Chance(1, 4) {
			// name and transform lengths vary independently across the 1-/2-/3-byte length varint boundaries
			d.Transform = genStr(r, rng.Pick(r, 126, 127, 128, 129, 300, 16383, 16384))
		}
		ne := 0
		switch p.Class {
		case "small":
			ne = r.Intn(12)
		case "lens", "longnames":
			ne = r.Intn(30)
		case "many":
			ne = rng.Pick(r, 0, 1, 1000, 5000, 20000)
		case "big":
			ne = 0 // filled below by size
		}
		add := func(i, kl, vl int) {
			kv := wire.KV{Key: genKey(r, i, kl)}
			if vl > 0 {
				kv.Val = r.Bytes(vl)
			}
			kv.TS = rng.Pick(r, tsVals[0], tsVals[1], tsVals[2], tsVals[3], r.U64(), 1700000000000000000+uint64(r.Intn(1<<30)))
			kv.Flags = rng.Pick(r, uint32(0), 0, 1, 1, 2, 0x80, 1<<32-1, uint32(r.U64()))
			d.Entries = append(d.Entries, kv)
		}
		for i := 0; i < ne; i++ {
			kl := rng.Pick(r, 1, 2, 3, 8, 16, 1+r.Intn(511))
			vl := rng.Pick(r, 0, 1, 5, 20, r.Intn(200))
			if p.Class == "lens" {
				kl = keyLens[r.Intn(len(keyLens))]
				vl = valLens[r.Intn(len(valLens))]
				if r.Chance(1, 12) {
					vl = bigValLens[r.Intn(2)]
				}
			}
			add(i, kl, vl)
		}
		if p.Class == "compressible" {
			// content that gzip shrinks by far more than 1:100 (zero-filled, 0xff-filled, one repeated byte): the
			// blob is tiny, the decoded message is not
			fill := rng.Pick(r, byte(0), 0xff, 'a')
			for i := 0; i < 1+r.Intn(6); i++ {
				vl := rng.Pick(r, 4096, 65536, 1<<20, 3<<20)
				kv := wire.KV{Key: genKey(r, 1000+i, 8), Val: bytes.Repeat([]byte{fill}, vl), TS: uint64(1700000000000000000 + i)}
				d.Entries = append(d.Entries, kv)
			}
		}
		if p.Class == "hugeval" {
			// single entries larger than the next growth step of the buffer
			pat := rng.Pick(r, []int{11 << 20}, []int{9 << 20, 25 << 20}, []int{100, 12 << 20, 100}, []int{6 << 20, 15 << 20}, []int{1 << 20, 1 << 20, 30 << 20})
			for i, vl := range pat {
				add(i, 8, vl)
			}
		}
		if p.Class == "big" {
			// cross the pre-allocation and growth steps: > 10 MB, and one > 21 MB
			target := rng.Pick(r, 11<<20, 12<<20, 22<<20)
			if di > 0 {
				target = 1 << 20
			}
			sz := 0
			for i := 0; sz < target; i++ {
				vl := rng.Pick(r, 100, 4000, 65536, 1<<20, 3<<20)
				add(i, 8, vl)
				sz += vl + 20
			}
		}
		s.DBIs = append(s.DBIs, d)
	}
	return s
}

// Summary is the compact description used in evidence samples.
func Summary(s *wire.Snap) map[string]any {
	var ents, bytes int
	var names []int
	for _, d := range s.DBIs {
		ents += len(d.Entries)
		names = append(names, len(d.Name))
		for _, e := range d.Entries {
			bytes += len(e.Key) + len(e.Val)
		}
	}
	return map[string]any{"format": s.FormatVersion, "compat": s.CompatVersion, "dbis": len(s.DBIs), "entries": ents, "kv_bytes": bytes, "name_lens": names}
}
