package codec

import (
	"verif/rng"
	"verif/wire"
)

// Reenc returns variations of the canonical tree that a conforming protobuf
// encoder (of this or a newer schema version) may produce: permuted fields at
// every level, unknown fields of every wire type at every level and position,
// duplicated scalar fields (last wins), a Meta message split in two (merged).
// kind selects the family; the PRNG the details.
func Reenc(s *wire.Snap, kind string, r *rng.R) *wire.Msg {
	t := wire.Tree(s)
	switch kind {
	case "permute":
		permuteAll(t, r)
	case "unknown":
		unknownAll(t, r, 3)
	case "unknown-first-last":
		unknownEdges(t, r)
	case "dup-scalar":
		dupScalars(t, r)
	case "split-meta":
		splitMeta(t, r)
	case "mixed":
		unknownAll(t, r, 2)
		dupScalars(t, r)
		permuteAll(t, r)
	case "nonminimal-len":
		padLens(t, r)
	case "unknown-hugefield":
		// field numbers 2^26 .. 2^29-1: legal protobuf, tag varint >= 2^29
		walk(t, func(m *wire.Msg, level int) {
			if level == 2 && r.Chance(4, 5) {
				return
			}
			f := unknownField(r)
			f.Num = rng.Pick(r, uint64(1<<26), 1<<28+1, 1<<29-1)
			pos := r.Intn(len(m.F) + 1)
			m.F = append(m.F, wire.Field{})
			copy(m.F[pos+1:], m.F[pos:])
			m.F[pos] = f
		}, 0)
	}
	return t
}

var ReencKinds = []string{"permute", "unknown", "unknown-first-last", "dup-scalar", "split-meta", "mixed"}

func walk(m *wire.Msg, f func(m *wire.Msg, level int), level int) {
	f(m, level)
	for i := range m.F {
		if m.F[i].Sub != nil {
			walk(m.F[i].Sub, f, level+1)
		}
	}
}

func permuteAll(t *wire.Msg, r *rng.R) {
	walk(t, func(m *wire.Msg, _ int) { rng.Shuffle(r, m.F) }, 0)
}

func unknownField(r *rng.R) wire.Field {
	num := rng.Pick(r, uint64(5), 6, 9, 15, 16, 17, 100, 2047, 2048, 1<<20, 1<<26-1)
	wt := rng.Pick(r, wire.WTVarint, wire.WTFixed64, wire.WTBytes, wire.WTFixed32)
	f := wire.Field{Num: num, WT: wt}
	switch wt {
	case wire.WTVarint:
		f.V = rng.Pick(r, uint64(0), 1, 127, 128, 1<<32, 1<<63, 1<<64-1)
	case wire.WTFixed64, wire.WTFixed32:
		f.V = r.U64()
	case wire.WTBytes:
		f.B = r.Bytes(rng.Pick(r, 0, 1, 2, 7, 127, 128, 300))
	}
	return f
}

// unknown field numbers must not collide with known ones of the level:
// Snapshot 1-4, Meta 1-5,7,8, DBI 1-4, KV 1-4 -> 6 is "reserved" in Meta
// (still skippable), so every number >= 9 is unknown everywhere; 5 and 6 are
// only used where unknown.
func fixNum(f *wire.Field, level int, isMeta bool) {
	if isMeta && (f.Num == 5 || f.Num == 7 || f.Num == 8) {
		f.Num = 9
	}
}

func unknownAll(t *wire.Msg, r *rng.R, per int) {
	var visit func(m *wire.Msg, level int, isMeta bool)
	visit = func(m *wire.Msg, level int, isMeta bool) {
		for i := range m.F {
			if m.F[i].Sub != nil {
				visit(m.F[i].Sub, level+1, level == 0 && m.F[i].Num == 2)
			}
		}
		n := 1 + r.Intn(per)
		if level == 2 && r.Chance(2, 3) {
			n = 0 // do not bloat every KV
		}
		for k := 0; k < n; k++ {
			f := unknownField(r)
			fixNum(&f, level, isMeta)
			pos := r.Intn(len(m.F) + 1)
			m.F = append(m.F, wire.Field{})
			copy(m.F[pos+1:], m.F[pos:])
			m.F[pos] = f
		}
	}
	visit(t, 0, false)
}

func unknownEdges(t *wire.Msg, r *rng.R) {
	var visit func(m *wire.Msg, level int, isMeta bool)
	visit = func(m *wire.Msg, level int, isMeta bool) {
		for i := range m.F {
			if m.F[i].Sub != nil {
				visit(m.F[i].Sub, level+1, level == 0 && m.F[i].Num == 2)
			}
		}
		a, b := unknownField(r), unknownField(r)
		fixNum(&a, level, isMeta)
		fixNum(&b, level, isMeta)
		m.F = append([]wire.Field{a}, append(m.F, b)...)
	}
	visit(t, 0, false)
}

func dupScalars(t *wire.Msg, r *rng.R) {
	walk(t, func(m *wire.Msg, level int) {
		var add []wire.Field
		for _, f := range m.F {
			if f.Sub != nil {
				continue
			}
			// a scalar known field: emit an earlier occurrence with another value
			if r.Chance(1, 2) {
				g := f
				switch g.WT {
				case wire.WTBytes:
					g.B = r.Bytes(r.Intn(6))
					if level == 2 && g.Num == 1 && len(g.B) == 0 {
						g.B = []byte{'k'} // an LMDB key is never empty, whichever occurrence ends up last
					}
				default:
					// stay inside the field's range: uint32 fields at level 0
					// (versions) and 2 (KV.flags) take < 2^32, a conforming
					// encoder cannot emit more
					g.V = r.U64() >> uint(33+r.Intn(30))
					if level == 1 && g.WT == wire.WTVarint && r.Bool() {
						g.V = r.U64() >> uint(r.Intn(33))
					}
				}
				add = append(add, g)
			}
		}
		// earlier occurrences first: the last one (original) wins
		m.F = append(add, m.F...)
	}, 0)
}

func splitMeta(t *wire.Msg, r *rng.R) {
	for i := range t.F {
		if t.F[i].Num == 2 && t.F[i].Sub != nil && len(t.F[i].Sub.F) >= 2 {
			all := t.F[i].Sub.F
			k := 1 + r.Intn(len(all)-1)
			first := &wire.Msg{F: append([]wire.Field{}, all[:k]...)}
			second := &wire.Msg{F: append([]wire.Field{}, all[k:]...)}
			t.F[i].Sub = first
			t.F = append(t.F, wire.Field{Num: 2, WT: wire.WTBytes, Sub: second})
			return
		}
	}
}

func padLens(t *wire.Msg, r *rng.R) {
	walk(t, func(m *wire.Msg, _ int) {
		for i := range m.F {
			if m.F[i].WT == wire.WTBytes && r.Chance(1, 3) {
				m.F[i].LenPad = 1 + r.Intn(3)
			}
		}
	}, 0)
}
