package codec

import (
	"fmt"
	"time"

	"github.com/PowerDNS/lmdb-go/lmdb"

	"github.com/PowerDNS/lightningstream/snapshot"

	"verif/bucket"
	"verif/inst"
	"verif/lmdbx"
	"verif/lsx"
	"verif/rng"
	"verif/runner"
	"verif/sched"
	"verif/wire"
)

type c08SyncParams struct {
	Native bool   `json:"native"`
	Seed   uint64 `json:"seed"`
	Kind   string `json:"kind"`  // what is wrong inside the blob
	Place  string `json:"place"` // newest | only
	// Own: the corrupt blob is the newest snapshot of the starting instance ITSELF (left behind by its previous run);
	// its older valid snapshot must still be merged and the instance must go on uploading
	Own bool `json:"own,omitempty"`
}

var lazyKinds = []string{"entry-bad-length", "entry-wrong-wiretype", "entry-truncated-fixed64", "entry-key-600-bytes", "entry-empty-key", "structural"}

func c08SyncCases(tier string, r *rng.R) []runner.Case {
	var cs []runner.Case
	n := 1
	if tier == "thorough" {
		n = 10
	}
	for k := 0; k < n; k++ {
		for _, native := range []bool{true, false} {
			for _, kind := range lazyKinds {
				for _, place := range []string{"newest", "only"} {
					p := c08SyncParams{Native: native, Seed: r.U64(), Kind: kind, Place: place}
					cs = append(cs, runner.MkCase("sync", fmt.Sprintf("%d-native=%v-%s-%s", k, native, kind, place), p))
				}
				if kind == "entry-bad-length" || kind == "structural" || kind == "entry-empty-key" {
					for _, place := range []string{"newest", "only"} {
						p := c08SyncParams{Native: native, Seed: r.U64(), Kind: kind, Place: place, Own: true}
						cs = append(cs, runner.MkCase("sync-own", fmt.Sprintf("%d-native=%v-%s-%s", k, native, kind, place), p))
					}
				}
			}
		}
	}
	return cs
}

// lazyCorruptBlob builds a blob that gunzips and whose top level parses, but
// whose DBI entries are malformed somewhere (the hand-written decoder reads
// entries lazily, during the merge).
func lazyCorruptBlob(r *rng.R, kind string, ts time.Time, instName string) []byte {
	s := &wire.Snap{FormatVersion: 3, CompatVersion: 1, Meta: wire.Meta{DatabaseName: "db", InstanceID: instName, GenerationID: "GX", TimestampNano: uint64(ts.UnixNano())}}
	d := wire.DBI{Name: "d"}
	for i := 0; i < 20; i++ {
		d.Entries = append(d.Entries, wire.KV{Key: []byte(fmt.Sprintf("bad-%02d", i)), Val: []byte("x"), TS: uint64(ts.UnixNano()) + uint64(i)})
	}
	s.DBIs = []wire.DBI{d}
	t := wire.Tree(s)
	if kind == "structural" {
		for try := 0; try < 50; try++ {
			t = wire.Tree(s)
			mutateStruct(t, r)
			pb := t.Encode()
			// wanted: a blob the repository cannot decode completely (LoadData or the iteration of some DBI
			// fails). A blob that it decodes without any error is a snapshot, however odd its encoding.
			if out, sig, _ := DecodeAll(wire.Gzip(pb), len(pb)); sig == "" && (!out.ok || out.err != "") {
				return wire.Gzip(pb)
			}
		}
		kind = "entry-bad-length"
		t = wire.Tree(s)
	}
	dm := t.F[len(t.F)-1].Sub
	for fi := range t.F {
		if t.F[fi].Num == 3 {
			dm = t.F[fi].Sub
		}
	}
	pos := 0
	for k := range dm.F {
		if dm.F[k].Num != 2 {
			continue
		}
		pos++
		if pos != 10 {
			continue
		}
		good := dm.F[k].Sub.Encode()
		switch kind {
		case "entry-bad-length":
			dm.F[k].Raw = append(wire.AppendVarint([]byte{0x12}, uint64(len(good)+100000), 0), good...)
		case "entry-wrong-wiretype":
			bad := append([]byte{0x08, 0x05}, good...)
			dm.F[k].Raw = append(wire.AppendVarint([]byte{0x12}, uint64(len(bad)), 0), bad...)
		case "entry-truncated-fixed64":
			bad := append(append([]byte{}, good...), 0x19, 0x01)
			dm.F[k].Raw = append(wire.AppendVarint([]byte{0x12}, uint64(len(bad)), 0), bad...)
		case "entry-key-600-bytes":
			long := (&wire.Msg{F: []wire.Field{{Num: 1, WT: wire.WTBytes, B: make([]byte, 600)}, {Num: 2, WT: wire.WTBytes, B: []byte("v")}, {Num: 3, WT: wire.WTFixed64, V: uint64(ts.UnixNano())}}}).Encode()
			dm.F[k].Raw = append(wire.AppendVarint([]byte{0x12}, uint64(len(long)), 0), long...)
		case "entry-empty-key":
			e := (&wire.Msg{F: []wire.Field{{Num: 2, WT: wire.WTBytes, B: []byte("v")}, {Num: 3, WT: wire.WTFixed64, V: uint64(ts.UnixNano())}}}).Encode()
			dm.F[k].Raw = append(wire.AppendVarint([]byte{0x12}, uint64(len(e)), 0), e...)
		}
	}
	return wire.Gzip(t.Encode())
}

// runC08Sync: a real Sync loop meets a blob that is corrupt inside its entries.
func runC08Sync(c runner.Case, env *runner.Env) (res runner.Result) {
	var p c08SyncParams
	runner.Params(c, &p)
	res.Key = c.ID
	r := rng.New(p.Seed)
	b := bucket.New()
	s := sched.New()
	defer s.Close()
	base := time.Now().Add(-time.Hour)
	good := func(instName string, i int, key string) (string, []byte) {
		ts := base.Add(time.Duration(i) * time.Second)
		ws := &wire.Snap{FormatVersion: 3, CompatVersion: 1, Meta: wire.Meta{DatabaseName: "db", InstanceID: instName, GenerationID: "GX", TimestampNano: uint64(ts.UnixNano())},
			DBIs: []wire.DBI{{Name: "d", Entries: []wire.KV{{Key: []byte(key), Val: []byte("ok"), TS: uint64(ts.UnixNano())}}}}}
		return snapshot.Name("db", instName, "GX", ts), wire.Gzip(wire.EncodeSnapshot(ws))
	}
	// instance r1: [good] + corrupt newest, or only the corrupt one; instance r2: good
	var r1good string
	r1 := "r1"
	if p.Own {
		r1 = "a"
	}
	if p.Place == "newest" {
		n, d := good(r1, 1, "from-r1")
		b.Put(n, d)
		r1good = n
	}
	badTS := base.Add(10 * time.Second)
	badName := snapshot.Name("db", r1, "GX", badTS)
	badBlob := lazyCorruptBlob(r, p.Kind, badTS, r1)
	b.Put(badName, badBlob)
	r2name, r2data := good("r2", 2, "from-r2")
	b.Put(r2name, r2data)
	_, loadErr := snapshot.LoadData(badBlob)
	res.Add("corrupt_blob_passes_LoadData", fmt.Sprint(loadErr == nil))

	opt := inst.Opt{Native: p.Native}
	if p.Own {
		// a valid configuration shape: retries are faster than the storage poll (1:25 here), so the downloader's
		// re-check after the corrupt blob always comes before the receiver's next listing
		conf := lsx.FastConfig("a")
		conf.StoragePollInterval = 25 * time.Millisecond
		opt.Conf = &conf
	}
	a, err := inst.New(env.Dir("c08sync"), b, "db", "a", opt)
	if err != nil {
		res.Verdict, res.Msg = runner.Inconclusive, err.Error()
		return
	}
	defer a.Close()
	_, _ = lmdbx.Update(a.Env, func(txn *lmdb.Txn) error {
		if p.Native {
			return inst.NativePut(txn, "d", []byte("local"), uint64(time.Now().UnixNano()), false, []byte("v"))
		}
		return lmdbx.Put(txn, "d", 0, []byte("local"), []byte("v"))
	})
	loop := sched.Start(a, s)
	defer loop.Stop(5 * time.Second)
	// bounded progress: r2's snapshot (and r1's older good one) merged within 300 loop iterations
	deadline := time.Now().Add(20 * time.Second)
	ended := false
	for time.Now().Before(deadline) && s.Count("a", "loop.end", 0) < 300 {
		if _, _, fin := loop.Result(); fin {
			ended = true
			break
		}
		if s.Loaded("a", r2name, 0) && (r1good == "" || s.Loaded("a", r1good, 0)) && s.IdleIterations("a", 0) >= 3 {
			break
		}
		time.Sleep(300 * time.Microsecond)
	}
	res.Count("sync_scenarios", 1)
	wit := map[string]any{"params": p, "corrupt_blob_hex": fmt.Sprintf("%x", head(badBlob, 2000)), "events_tail": s.Tail(40)}
	if ended {
		err, crashed, _ := loop.Result()
		res.Violate("corrupt-blob-stops-sync", fmt.Sprintf("a blob that is corrupt inside its entries (%s) made Sync return (err=%v, crashed=%v): the instance stops merging everybody's snapshots", p.Kind, err, crashed), wit)
		return
	}
	if !s.Loaded("a", r2name, 0) {
		if s.Count("a", "loop.end", 0) >= 300 {
			res.Violate("other-instance-not-merged", "the valid snapshot of another instance was not merged within 300 loop iterations while a corrupt blob was present", wit)
		} else {
			res.Verdict, res.Msg = runner.Inconclusive, "watchdog"
		}
		return
	}
	if r1good != "" && !s.Loaded("a", r1good, 0) {
		res.Violate("older-decodable-snapshot-not-merged", "the newest decodable snapshot of the instance with the corrupt blob was not merged", wit)
	}
	if p.Own {
		// the instance has local data and a local change: within the bound it must have published a snapshot of its
		// own that is newer than the corrupt one and carries the local key
		AppPutPlain(a, "local-2", "v2")
		from := s.Len()
		okUp := false
		for time.Now().Before(deadline) && s.Count("a", "loop.end", from) < 300 && !okUp {
			for _, n := range b.Names() {
				if ni, err := snapshot.ParseName(n); err == nil && ni.InstanceID == "a" && n > badName {
					if data, ok := b.Get(n); ok {
						if ws, err := wire.DecodeBlob(data); err == nil {
							for _, d := range ws.DBIs {
								for _, e := range d.Entries {
									if string(e.Key) == "local-2" {
										okUp = true
									}
								}
							}
						}
					}
				}
			}
			time.Sleep(300 * time.Microsecond)
		}
		if !okUp {
			if _, _, fin := loop.Result(); fin {
				err, crashed, _ := loop.Result()
				res.Violate("corrupt-blob-stops-sync", fmt.Sprintf("Sync returned (err=%v, crashed=%v)", err, crashed), wit)
			} else if s.Count("a", "loop.end", from) >= 300 {
				res.Violate("own-corrupt-blob-blocks-uploads", "the instance's own newest snapshot is corrupt: 300 loop iterations after a local change it has still not uploaded a snapshot carrying it", wit)
			} else {
				res.Verdict, res.Msg = runner.Inconclusive, "watchdog"
			}
			return
		}
		res.Count("own_corrupt_scenarios_with_upload", 1)
	}
	// the corrupt blob is downloaded at most once... unless it is valid for LoadData and fails later (then it must still not be retried forever)
	loads := 0
	for _, e := range b.Log() {
		if e.Op == "Load" && e.Name == badName && e.Err == "" {
			loads++
		}
	}
	if loads > 1 {
		res.Violate("corrupt-blob-reloaded", fmt.Sprintf("the corrupt blob was downloaded %d times", loads), wit)
	}
	// nothing of the corrupt blob may be in the LMDB
	st, _ := a.Logical()
	for k := range st["d"] {
		if len(k) >= 4 && k[:4] == "bad-" {
			res.Violate("corrupt-blob-partially-merged", "entries of the corrupt blob are in the LMDB: "+k, wit)
			break
		}
	}
	res.NonTrivial = true
	res.Sample = map[string]any{"params": p, "passes_LoadData": loadErr == nil, "loads_of_corrupt_blob": loads}
	return
}

// AppPutPlain commits one application write (native header or plain value depending on the instance).
func AppPutPlain(x *inst.Inst, key, val string) {
	_, _ = lmdbx.Update(x.Env, func(txn *lmdb.Txn) error {
		if x.Opt.Native {
			return inst.NativePut(txn, "d", []byte(key), uint64(time.Now().UnixNano()), false, []byte(val))
		}
		return lmdbx.Put(txn, "d", 0, []byte(key), []byte(val))
	})
}
