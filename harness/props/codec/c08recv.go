package codec

import (
	"fmt"
	"time"

	"verif/recvx"
	"verif/rng"
	"verif/runner"
)

type c08RecvParams struct {
	Sc recvx.Scenario `json:"sc"`
}

var hostileGens = []string{"g1-raw", "g1-gz", "g2-trunc", "g2-flip-pb", "g2-flip-gz", "g3-struct", "g3-tiny", "g4-gzip"}

// c08ReceiverCases places hostile blobs as the newest, a middle or the only
// blob of some instances among valid snapshots of several instances.
func c08ReceiverCases(tier string, r *rng.R) []runner.Case {
	n := 60
	if tier == "thorough" {
		n = 1000
	}
	var cs []runner.Case
	for i := 0; i < n; i++ {
		sc := recvx.Scenario{Own: "self", DLimit: rng.Pick(r, 1, 2, 2, 3), ZLimit: rng.Pick(r, 1, 2, 3, 3), Consumer: rng.Pick(r, "fast", "fast", "slow"), Bound: 1500}
		ni := 2 + r.Intn(5)
		for k := 0; k < ni; k++ {
			is := recvx.InstSpec{Name: fmt.Sprintf("i%d", k)}
			hostile := func() recvx.BlobSpec {
				g := hostileGens[r.Intn(len(hostileGens))]
				idx := r.Intn(1000)
				if g == "g4-gzip" {
					idx = r.Intn(50)
				}
				return recvx.BlobSpec{Kind: "hostile", Gen: g, Seed: r.U64(), Index: idx}
			}
			valid := recvx.BlobSpec{Kind: "valid"}
			switch place := r.Intn(6); place {
			case 0: // only valid
				for j := 0; j < 1+r.Intn(3); j++ {
					is.Blobs = append(is.Blobs, valid)
				}
			case 1: // hostile newest
				is.Blobs = []recvx.BlobSpec{valid, hostile()}
			case 2: // hostile middle
				is.Blobs = []recvx.BlobSpec{valid, hostile(), valid}
			case 3: // hostile only
				is.Blobs = []recvx.BlobSpec{hostile()}
			case 4: // two hostile newest on top of a valid one
				is.Blobs = []recvx.BlobSpec{valid, hostile(), hostile()}
			case 5: // hostile appears later as newest
				h := hostile()
				h.AtCycle = 3 + r.Intn(5)
				is.Blobs = []recvx.BlobSpec{valid, h}
			}
			sc.Insts = append(sc.Insts, is)
		}
		cs = append(cs, runner.MkCase("receiver", fmt.Sprint(i), c08RecvParams{Sc: sc}))
	}
	return cs
}

func hostileBlob(gen string, seed uint64, index int) []byte {
	b, _ := genInput(c08Params{Gen: gen, Seed: seed}, index)
	return b
}

func runC08Receiver(c runner.Case, env *runner.Env) (res runner.Result) {
	var p c08RecvParams
	runner.Params(c, &p)
	p.Sc.DB = recvx.UniqueDB("c08db")
	out := recvx.Run(p.Sc, hostileBlob, 40*time.Second)
	ApplyRecvOutcome(&res, c, p.Sc, out)
	res.NonTrivial = out.HostileLoaded > 0 && out.RequiredCount > 0
	return
}

// ApplyRecvOutcome copies a receiver outcome into a runner result.
func ApplyRecvOutcome(res *runner.Result, c runner.Case, sc recvx.Scenario, out recvx.Outcome) {
	res.Count("receiver_scenarios", 1)
	res.Count("deliveries", int64(len(out.Deliveries)))
	res.Count("list_cycles", int64(out.ListCycles))
	res.Count("hostile_blobs_downloaded", int64(out.HostileLoaded))
	res.Count("undecodable_blobs_placed", int64(out.UndecodableCnt))
	res.Count("instances_requiring_delivery", int64(out.RequiredCount))
	res.Count("faults_fired", int64(out.FaultsFired))
	if out.LimitReachedD {
		res.Count("download_limit_reached", 1)
	}
	if out.LimitReachedZ {
		res.Count("decompress_limit_reached", 1)
	}
	res.Add("cycles_to_all_delivered", fmt.Sprint(out.CyclesToAll))
	res.Add("max_inflight_loads", fmt.Sprint(out.MaxInflight))
	if out.Inconclusive != "" {
		res.Verdict = runner.Inconclusive
		res.Msg = out.Inconclusive
		return
	}
	for _, f := range out.Violations {
		res.Violate(f.Sig, f.Msg, map[string]any{"scenario": sc, "deliveries": out.Deliveries, "loads": out.LoadsByName})
	}
	if res.Sample == nil {
		res.Sample = map[string]any{"case": c.ID, "instances": len(sc.Insts), "limits": []int{sc.DLimit, sc.ZLimit}, "consumer": sc.Consumer, "deliveries": len(out.Deliveries), "list_cycles": out.ListCycles, "cycles_to_all": out.CyclesToAll}
	}
}

// HostileBlob exposes the hostile generators to other checks.
func HostileBlob(gen string, seed uint64, index int) []byte { return hostileBlob(gen, seed, index) }
