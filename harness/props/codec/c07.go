package codec

import (
	"bytes"
	"fmt"

	"github.com/PowerDNS/lightningstream/snapshot"

	"verif/lsx"
	"verif/rng"
	"verif/runner"
	"verif/wire"
)

type c07Params struct {
	Gen   GenParams `json:"gen"`
	Reenc int       `json:"reenc"` // re-encodings per kind
}

func C07() *runner.Property {
	return &runner.Property{
		ID:    "C07",
		Level: "exploration",
		Rule: "generated snapshots (classes small/lens/many/big/longnames; boundary key, value, name and varint lengths; pre-sized and growing DBI buffers) are encoded by the repository writer and decoded by three decoders " +
			"(repository hand-written reader, generated gogo codec, the harness's independent strict wire parser); every snapshot is also re-encoded (field permutations, unknown fields of 4 wire types at every level and position, " +
			"duplicated scalars, split Meta) and the three decoders must agree. Non-trivial = the snapshot has >= 1 DBI with >= 1 entry; distinct by content hash of the generated snapshot.",
		Assumptions: []string{
			"DBI names and keys are non-empty (LMDB content); a DBI/KV whose every field is default is dropped by the writer by design",
			"the generated gogo codec shipped in the repository and the harness's own wire parser are the two references for 'what a standard implementation yields'",
			"deprecated group wire types and non-minimal varints are not generated (a conforming proto3 encoder cannot emit them)",
			"DBI names longer than LMDB's 511-byte limit are probed in a separate class ('longnames') because the statement says 'any names'",
		},
		BatchSize:   8,
		CaseTimeout: 180e9,
		Cases: func(tier string, seed int64) []runner.Case {
			var cs []runner.Case
			r := rng.New(uint64(seed) ^ 0xC07)
			n := map[string]int{"small": 600, "lens": 300, "many": 24, "big": 6, "longnames": 24, "hugeval": 8, "compressible": 8}
			re := 2
			if tier == "thorough" {
				n = map[string]int{"small": 20000, "lens": 8000, "many": 400, "big": 40, "longnames": 400, "hugeval": 40, "compressible": 60}
				re = 3
			}
			for _, cl := range []string{"small", "lens", "many", "big", "longnames", "hugeval", "compressible"} {
				for i := 0; i < n[cl]; i++ {
					g := GenParams{Seed: r.U64(), Class: cl, Sized: i%2 == 0}
					rr := re
					if cl == "big" || cl == "many" || cl == "hugeval" || cl == "compressible" {
						rr = 1
					}
					if cl == "hugeval" || cl == "big" {
						g.Frac = []int{0, 40, 0, 10}[i%4]
					}
					cs = append(cs, runner.MkCase(cl, fmt.Sprintf("%d", i), c07Params{Gen: g, Reenc: rr}))
				}
			}
			return cs
		},
		Run: runC07,
	}
}

func runC07(c runner.Case, env *runner.Env) (res runner.Result) {
	var p c07Params
	runner.Params(c, &p)
	s := Gen(p.Gen)
	lsx.SizeFrac = 1.0
	if p.Gen.Frac > 0 {
		lsx.SizeFrac = float64(p.Gen.Frac) / 100
	}
	res.Sample = map[string]any{"case": c.ID, "gen": p.Gen, "snapshot": Summary(s)}
	for _, d := range s.DBIs {
		if len(d.Entries) > 0 {
			res.NonTrivial = true
		}
		res.Count("entries", int64(len(d.Entries)))
		for _, e := range d.Entries {
			res.Add("keylen_class", lenClass(len(e.Key)))
			res.Add("vallen_class", lenClass(len(e.Val)))
		}
		res.Add("namelen_class", lenClass(len(d.Name)))
	}
	res.Count("dbis", int64(len(s.DBIs)))
	if p.Gen.Class == "longnames" {
		res.Key = "longnames:" + runner.HashOf(p.Gen)
	} else {
		res.Key = runner.HashOf(p.Gen)
	}
	witness := func(extra map[string]any) map[string]any {
		w := map[string]any{"gen": p.Gen, "snapshot": Summary(s)}
		for k, v := range extra {
			w[k] = v
		}
		return w
	}
	sigPrefix := ""
	if p.Gen.Class == "longnames" {
		sigPrefix = "dbi-top-level-fields-over-1000-bytes:"
	}

	// 1. encode with the repository writer (through its public construction API)
	rs := lsx.ToRepo(s, p.Gen.Sized)
	pb, err := lsx.RepoEncode(rs)
	if err != nil {
		res.Violate(sigPrefix+"encode-error", "repository WriteTo failed: "+err.Error(), witness(nil))
		return
	}
	res.Count("encoded_bytes", int64(len(pb)))
	res.Add("pb_size_class", lenClass(len(pb)))

	// 2. the bytes must be a strictly valid message of the schema with the same content
	r1, err := wire.DecodeSnapshot(pb)
	if err != nil {
		res.Violate(sigPrefix+"encode-invalid-protobuf", "independent strict parser rejects the written bytes: "+err.Error(), witness(nil))
		return
	}
	if err := wire.Equal(s, r1); err != nil {
		res.Violate(sigPrefix+"encode-content", "written bytes decode (independent parser) to other content: "+err.Error(), witness(nil))
		return
	}
	// 3. generated codec agrees
	r2, err := lsx.GogoDecode(pb)
	if err != nil {
		res.Violate(sigPrefix+"encode-gogo-rejects", "generated codec rejects the written bytes: "+err.Error(), witness(nil))
		return
	}
	if err := wire.Equal(s, r2); err != nil {
		res.Violate(sigPrefix+"encode-gogo-content", "generated codec reads other content: "+err.Error(), witness(nil))
		return
	}
	// 4. repository round trip, plain and through DumpData/LoadData
	rr, err := lsx.RepoDecode(pb)
	if err != nil {
		res.Violate(sigPrefix+"roundtrip-decode-error", "repository reader rejects what the repository writer wrote: "+err.Error(), witness(nil))
		return
	}
	if err := wire.Equal(s, rr); err != nil {
		res.Violate(sigPrefix+"roundtrip-content", "encode->decode differs: "+err.Error(), witness(nil))
		return
	}
	gz, _, err := snapshot.DumpData(lsx.ToRepo(s, !p.Gen.Sized))
	if err != nil {
		res.Violate(sigPrefix+"dumpdata-error", err.Error(), witness(nil))
		return
	}
	ls, err := snapshot.LoadData(gz)
	if err != nil {
		res.Violate(sigPrefix+"loaddata-error", "LoadData(DumpData(s)): "+err.Error(), witness(nil))
		return
	}
	lw, err := lsx.FromRepo(ls)
	if err != nil {
		res.Violate(sigPrefix+"loaddata-iterate", err.Error(), witness(nil))
		return
	}
	if err := wire.Equal(s, lw); err != nil {
		res.Violate(sigPrefix+"dumpload-content", "LoadData(DumpData(s)) differs: "+err.Error(), witness(nil))
		return
	}
	// independent gunzip of the repository's gzip output
	if pb2, err := wire.Gunzip(gz, 0); err != nil || !bytes.Equal(pb2, pb) {
		// the two ToRepo variants (sized / growing) must write identical bytes
		res.Violate(sigPrefix+"dumpdata-bytes", fmt.Sprintf("DumpData output gunzips (stdlib) to other bytes than WriteTo produced (err=%v)", err), witness(nil))
		return
	}

	// 5. re-encodings: all three decoders must agree
	r := rng.New(p.Gen.Seed ^ 0x5eed)
	kinds := append([]string{}, ReencKinds...)
	if p.Gen.Class == "small" {
		kinds = append(kinds, "unknown-hugefield")
	}
	for _, kind := range kinds {
		for k := 0; k < p.Reenc; k++ {
			t := Reenc(s, kind, r)
			e := t.Encode()
			res.Count("reencodings", 1)
			res.Add("reenc_kind", kind)
			exp, err := wire.DecodeSnapshot(e)
			if err != nil {
				res.Verdict = runner.Inconclusive
				res.Msg = "harness produced an invalid re-encoding: " + err.Error()
				return
			}
			g, err := lsx.GogoDecode(e)
			if err != nil {
				res.Verdict = runner.Inconclusive
				res.Msg = "generated codec rejects harness re-encoding (" + kind + "): " + err.Error()
				return
			}
			if err := wire.Equal(exp, g); err != nil {
				res.Verdict = runner.Inconclusive
				res.Msg = "references disagree on " + kind + ": " + err.Error()
				return
			}
			got, err := lsx.RepoDecode(e)
			if err != nil {
				if kind == "unknown-hugefield" {
					res.Violate("unknown-field-number-ge-2pow26-rejected", fmt.Sprintf("valid message with an unknown field number >= 2^26 rejected by the repository reader: %v", err), witness(map[string]any{"kind": kind, "k": k, "bytes_prefix": fmt.Sprintf("%x", head(e, 200))}))
					continue
				}
				res.Violate(sigPrefix+"reenc-rejected:"+kind, fmt.Sprintf("valid message (%s) rejected by the repository reader: %v", kind, err), witness(map[string]any{"kind": kind, "k": k, "bytes_prefix": fmt.Sprintf("%x", head(e, 200))}))
				continue
			}
			if err := wire.Equal(exp, got); err != nil {
				res.Violate(sigPrefix+"reenc-content:"+kind, fmt.Sprintf("valid message (%s) read differently from the standard implementations: %v", kind, err), witness(map[string]any{"kind": kind, "k": k, "bytes_prefix": fmt.Sprintf("%x", head(e, 200))}))
			}
		}
	}
	return
}

func head(b []byte, n int) []byte {
	if len(b) > n {
		return b[:n]
	}
	return b
}

// lenClass buckets a length by the varint width of its length prefix and the
// interesting neighbours.
func lenClass(n int) string {
	switch {
	case n == 0:
		return "0"
	case n < 127:
		return "1..126"
	case n == 127:
		return "127"
	case n == 128:
		return "128"
	case n < 511:
		return "129..510"
	case n == 511:
		return "511"
	case n < 16383:
		return "512..16382"
	case n == 16383:
		return "16383"
	case n == 16384:
		return "16384"
	case n < 2097151:
		return "16385..2097150"
	case n == 2097151:
		return "2097151"
	case n == 2097152:
		return "2097152"
	case n < 10<<20:
		return "2M..10M"
	case n < 21<<20:
		return "10M..21M"
	default:
		return ">21M"
	}
}
