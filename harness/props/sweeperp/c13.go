// Package sweeperp holds the monitor for C13: the tomb sweeper removes exactly
// the expired deletion markers.
package sweeperp

import (
	"bytes"
	"context"
	"fmt"
	"sort"
	"strings"
	"time"

	"github.com/PowerDNS/lmdb-go/lmdb"

	"github.com/PowerDNS/lightningstream/config"
	"github.com/PowerDNS/lightningstream/syncer/sweeper"
	"github.com/PowerDNS/lightningstream/utils/verifhook"

	"verif/hdr"
	"verif/lmdbx"
	"verif/lsx"
	"verif/rng"
	"verif/runner"
)

type c13Params struct {
	Seed      uint64  `json:"seed"`
	Native    bool    `json:"native"`
	NDBI      int     `json:"ndbi"`
	Entries   int     `json:"entries"`
	RetDays   float32 `json:"retention_days"`
	ReleaseUS int     `json:"release_us"`
	Writer    bool    `json:"writer"`
}

func C13() *runner.Property {
	return &runner.Property{
		ID:    "C13",
		Level: "exploration",
		Rule: "one real sweeper pass (VerifSweepOnce) over generated LMDB contents: 1-4 DBIs of 2500-40000 entries (live entries, young markers, expired markers placed deliberately at record positions 998-1002, 1999-2001, ... and in runs spanning slice boundaries), lock_duration 1 ns so that a slice ends every 1000 records, release_duration 0-2 ms, fractional and whole retention_days; " +
			"between slices (yield point outside any transaction) an application commits puts, young and expired marker writes and physical deletes on random keys and on the keys next to the slice boundaries (including the resume key). Runs of expired markers and the markers next to slice boundaries are byte-identical (one bulk deletion); a ladder of markers 0-2 s younger than the retention at setup time crosses the limit while the pass runs. Oracle from byte dumps before/after, the writer's log and the bracket of the instant at which the pass fixed its cutoff, [t0, end of its first slice]: untouched expired marker (ts < t0-R) must be gone; " +
			"untouched live entry or marker with ts >= firstSliceEnd-R must be byte-identical however long the rest of the pass takes; touched keys carry the writer's last write (an expired marker written by the writer may or may not be swept); markers inside the bracket are not judged. Non-native mode: application DBIs (arbitrary bytes incl. values that look like expired markers) byte-identical, only _sync* DBIs change. " +
			"Non-trivial = >= 2 slices and >= 1 expired marker and >= 1 protected entry.",
		Assumptions: []string{"the exact boundary ts == cutoff is a 1 ns window that cannot be hit without replacing the clock: not judged", "retention computed independently as retention_days x 24h and compared with config.Sweeper.RetentionDuration() (tolerance 1 s + 2^-22 relative, float32); the bracket then uses the sweeper's own value so that it is exact"},
		BatchSize:   3,
		CaseTimeout: 240e9,
		Cases: func(tier string, seed int64) []runner.Case {
			r := rng.New(uint64(seed) ^ 0xC13)
			n := 120
			if tier == "thorough" {
				n = 12000
			}
			var cs []runner.Case
			for i := 0; i < n; i++ {
				p := c13Params{Seed: r.U64(), Native: i%3 != 2, NDBI: 1 + r.Intn(4), Entries: rng.Pick(r, 2500, 3000, 3003, 4001, 5500),
					RetDays: rng.Pick(r, float32(0.1), 0.5, 1, 1.03, 7, 370, 36500), ReleaseUS: rng.Pick(r, 0, 100, 1000, 2000), Writer: i%4 != 3}
				if tier == "thorough" && i%25 == 0 {
					p.Entries = rng.Pick(r, 12000, 40000)
					p.NDBI = 1 + r.Intn(2)
				}
				fam := "native"
				if !p.Native {
					fam = "shadow"
				}
				cs = append(cs, runner.MkCase(fam, fmt.Sprint(i), p))
			}
			return cs
		},
		Run: runC13,
	}
}

type wlog struct {
	dbi  string
	key  string
	val  []byte // nil = physically deleted
	kind string
}

func keyOf(i int) []byte { return []byte(fmt.Sprintf("key-%08d", i*10)) }

func runC13(c runner.Case, env *runner.Env) (res runner.Result) {
	var p c13Params
	runner.Params(c, &p)
	res.Key = c.ID
	lsx.Quiet()
	r := rng.New(p.Seed)
	e, err := lmdbx.Open(env.Dir("c13"), 1<<30)
	if err != nil {
		res.Verdict, res.Msg = runner.Inconclusive, err.Error()
		return
	}
	defer e.Close()
	R := time.Duration(float64(p.RetDays) * float64(24*time.Hour))
	// the repository computes the retention in float32: allow its rounding (2^-22 relative) plus 1 s
	tol := time.Second + R/(1<<22)
	start := time.Now()
	// A retention that reaches back before 1970 ("keep for 100 years") leaves nothing expired: the oldest possible
	// markers (1970) are then young and must survive like every other one.
	preEpoch := start.Add(-R).UnixNano() < 0
	expiredTS := func() uint64 {
		if preEpoch {
			return uint64(1 + r.Intn(1e9))
		}
		return uint64(start.Add(-R - tol - time.Duration(1+r.Intn(3600))*time.Second).UnixNano())
	}
	youngTS := func() uint64 {
		if preEpoch {
			return uint64(start.Add(-time.Duration(r.Intn(1e6)) * time.Second).UnixNano())
		}
		return uint64(start.Add(-R + tol + time.Duration(30+r.Intn(3600))*time.Second).UnixNano())
	}
	// DBIs: in native mode application DBIs are swept; otherwise only _sync* ones
	var sweptDBIs, appDBIs []string
	for i := 0; i < p.NDBI; i++ {
		if p.Native {
			sweptDBIs = append(sweptDBIs, fmt.Sprintf("d%d", i))
		} else {
			app := fmt.Sprintf("d%d", i)
			if i == 0 && p.NDBI > 1 {
				// an application DBI whose name merely contains "_sync" is not one of Lightning Stream's own (seed C13j)
				app = "zone_sync_state"
			}
			sweptDBIs = append(sweptDBIs, "_sync_shadow_"+app)
			appDBIs = append(appDBIs, app)
		}
	}
	nExpired, nProtected := 0, 0
	// the retention the sweeper itself uses (float32 arithmetic); checked against the independent value, then used for
	// the exact cutoff bracket of the ladder below
	Rrepo := config.Sweeper{RetentionDays: p.RetDays}.RetentionDuration()
	if d := Rrepo - R; d > tol || d < -tol {
		res.Violate("retention-duration-wrong", fmt.Sprintf("retention_days %v gives %v, expected %v", p.RetDays, Rrepo, R), map[string]any{"params": p})
		return
	}
	// ladder: markers that are a few milliseconds to 2 s YOUNGER than the retention when the setup starts. The pass
	// fixes its cutoff when it begins; the ones that cross the limit while the pass is under way must survive it.
	ladderTS := func() uint64 {
		if preEpoch {
			return youngTS()
		}
		return uint64(start.Add(-Rrepo + time.Duration(r.Intn(2000000))*time.Microsecond).UnixNano())
	}
	nLadder := 0
	_, err = lmdbx.Update(e, func(txn *lmdb.Txn) error {
		for _, d := range sweptDBIs {
			runUntil := -1
			// one bulk deletion (one transaction, one timestamp): its markers are byte-identical
			bulk := hdr.Make(expiredTS(), 3, 1, nil, nil)
			for i := 0; i < p.Entries; i++ {
				pos := i + 1 // 1-based record position
				mod := pos % 1000
				nearBoundary := mod >= 998 || mod <= 2
				var v []byte
				switch {
				case i <= runUntil:
					v = bulk
					nExpired++
				case nearBoundary && r.Chance(2, 3):
					v = bulk
					if r.Chance(1, 4) {
						v = hdr.Make(expiredTS(), 3, 1, nil, nil)
					}
					nExpired++
				case r.Chance(1, 300):
					runUntil = i + 1 + r.Intn(40) // a run of expired markers
					v = bulk
					nExpired++
				default:
					switch r.Intn(10) {
					case 0, 1:
						v = hdr.Make(expiredTS(), 3, 1, nil, nil)
						nExpired++
					case 2:
						ts := youngTS()
						if r.Chance(1, 5) {
							// far-future and "never expire" stamps: timestamps are unsigned 64-bit
							ts = rng.Pick(r, uint64(1)<<63, uint64(1)<<63+12345, 1<<64-1, uint64(start.UnixNano())+uint64(1)<<62)
						}
						v = hdr.Make(ts, 3, 1, nil, nil)
						nProtected++
					case 3:
						v = hdr.Make(ladderTS(), 3, 1, nil, nil)
						nLadder++
					case 4:
						// live entry with an old timestamp: must never be removed
						v = hdr.Make(expiredTS(), 3, 0, nil, []byte("old-but-live"))
						nProtected++
					case 5:
						// extension blocks and foreign flag bits on a live entry
						v = hdr.Make(expiredTS(), 3, 0x80, make([]byte, 8), []byte("x"))
						nProtected++
					default:
						v = hdr.Make(uint64(start.UnixNano())-uint64(r.Intn(1e9)), 3, 0, nil, r.Bytes(r.Intn(30)))
						nProtected++
					}
				}
				if err := lmdbx.Put(txn, d, 0, keyOf(i), v); err != nil {
					return err
				}
			}
		}
		for _, d := range appDBIs {
			for i := 0; i < 300; i++ {
				var v []byte
				switch r.Intn(3) {
				case 0:
					v = hdr.Make(expiredTS(), 3, 1, nil, nil) // looks like an expired marker
				case 1:
					v = r.Bytes(r.Intn(40))
				default:
					v = []byte("plain application value")
				}
				if len(v) == 0 {
					v = []byte{1}
				}
				if err := lmdbx.Put(txn, d, 0, keyOf(i), v); err != nil {
					return err
				}
			}
		}
		return nil
	})
	if err != nil {
		res.Verdict, res.Msg = runner.Inconclusive, "setup: "+err.Error()
		return
	}
	before, _, _ := lmdbx.DumpEnv(e)

	conf := config.Sweeper{Enabled: true, RetentionDays: p.RetDays, LockDuration: time.Nanosecond, ReleaseDuration: time.Duration(p.ReleaseUS) * time.Microsecond, Interval: time.Hour, FirstInterval: time.Hour}
	sw := sweeper.New("c13-"+c.ID, conf, e, lsx.NullLogger(), p.Native)

	// the application writes between slices
	var log []wlog
	var firstSliceEnd time.Time
	slices := 0
	commitsBetween := 0
	verifhook.Set(func(instance, point, detail string) {
		if point != "sweep.slice_end" || !strings.HasPrefix(instance, "c13-") {
			return
		}
		slices++
		if slices == 1 {
			firstSliceEnd = time.Now()
		}
		if !p.Writer {
			return
		}
		d := detail
		// keys around the boundary the sweeper just stopped at, and random ones
		var targets []int
		bpos := slices * 1000
		for _, off := range []int{-3, -2, -1, 0, 1, 2} {
			if r.Chance(1, 2) {
				targets = append(targets, bpos+off)
			}
		}
		for k := 0; k < r.Intn(4); k++ {
			targets = append(targets, r.Intn(p.Entries))
		}
		_, err := lmdbx.Update(e, func(txn *lmdb.Txn) error {
			for _, t := range targets {
				if t < 0 || t >= p.Entries {
					continue
				}
				k := keyOf(t)
				if r.Chance(1, 6) {
					k = []byte(string(k) + "-new") // a fresh key next to it
				}
				now := uint64(time.Now().UnixNano())
				var v []byte
				kind := ""
				switch r.Intn(6) {
				case 0, 1:
					v, kind = hdr.Make(now, uint64(txn.ID()), 0, nil, []byte("written-during-sweep")), "put"
				case 2:
					v, kind = hdr.Make(now, uint64(txn.ID()), 1, nil, nil), "young-marker"
				case 3:
					v, kind = hdr.Make(expiredTS(), uint64(txn.ID()), 1, nil, nil), "expired-marker"
				case 4:
					kind = "physical-delete"
				case 5:
					// rewrite the same logical content with a new txn id (bytes change)
					v, kind = hdr.Make(now, uint64(txn.ID()), 0, nil, []byte("rewrite")), "put"
				}
				if kind == "physical-delete" {
					if err := lmdbx.Del(txn, d, k); err != nil {
						return err
					}
					log = append(log, wlog{d, string(k), nil, kind})
				} else {
					if err := lmdbx.Put(txn, d, 0, k, v); err != nil {
						return err
					}
					log = append(log, wlog{d, string(k), v, kind})
				}
			}
			return nil
		})
		if err == nil && len(targets) > 0 {
			commitsBetween++
		}
	})
	t0 := time.Now()
	serr := sw.VerifSweepOnce(context.Background())
	t1 := time.Now()
	verifhook.Set(nil)
	if serr != nil {
		res.Violate("sweep-error", "the sweep pass failed: "+serr.Error(), map[string]any{"params": p})
		return
	}
	st := sw.VerifLastStats()
	after, _, _ := lmdbx.DumpEnv(e)
	res.Count("passes", 1)
	res.Count("slices", int64(st.NTxn))
	res.Count("writer_commits_between_slices", int64(commitsBetween))
	res.Count("cleaned_by_sweeper", int64(st.NCleaned))
	res.Count("expired_markers_placed", int64(nExpired))
	res.Count("ladder_markers_placed", int64(nLadder))
	res.Add("slices_per_pass", fmt.Sprint(st.NTxn))

	touched := map[string]*wlog{}
	for i := range log {
		l := log[i]
		touched[l.dbi+"\x00"+l.key] = &log[i]
		res.Add("writer_write_kinds", l.kind)
	}
	// The pass takes its cutoff once, after t0 and before the end of its first slice: [t0-R, firstSliceEnd-R] with the
	// sweeper's own R (checked above). Everything from the upper end on must survive however long the pass takes.
	if firstSliceEnd.IsZero() {
		firstSliceEnd = t1
	}
	clamp := func(t time.Time) uint64 {
		if n := t.UnixNano(); n > 0 {
			return uint64(n)
		}
		return 0 // timestamps are unsigned: nothing is older than 1970
	}
	cutLo := clamp(t0.Add(-Rrepo))            // certainly expired below this
	cutHi := clamp(firstSliceEnd.Add(-Rrepo)) // certainly retained from this on
	crossLo, crossHi := cutHi, clamp(t1.Add(-Rrepo))
	wit := func(extra string) map[string]any {
		return map[string]any{"params": p, "detail": extra, "slices": st.NTxn, "retention": R.String(), "writer_log_len": len(log)}
	}
	resumes := 0
	for _, d := range sweptDBIs {
		am := map[string][]byte{}
		if ad := after[d]; ad != nil {
			for _, kv := range ad.KVs {
				am[string(kv.K)] = kv.V
			}
		}
		seen := map[string]bool{}
		bd := before[d]
		for idx, kv := range bd.KVs {
			seen[string(kv.K)] = true
			got, present := am[string(kv.K)]
			if w := touched[d+"\x00"+string(kv.K)]; w != nil {
				judgeTouched(&res, d, string(kv.K), w, got, present, cutLo, wit)
				continue
			}
			h, _, err := hdr.Read(kv.V)
			if err != nil {
				continue
			}
			switch {
			case h.Deleted() && h.TS < cutLo:
				if present {
					res.Violate("expired-marker-survived", fmt.Sprintf("dbi %s record #%d key %s: untouched deletion marker %v older than the retention at the start of the pass is still present", d, idx+1, kv.K, time.Unix(0, int64(h.TS)).UTC()), wit(fmt.Sprintf("record position %d", idx+1)))
				} else if (idx+1)%1000 == 0 {
					resumes++
				}
			case !h.Deleted() || h.TS >= cutHi:
				if !present {
					what := "live entry"
					if h.Deleted() {
						what = "young deletion marker"
					}
					res.Violate("protected-entry-removed", fmt.Sprintf("dbi %s record #%d key %s: untouched %s (ts %v) was removed", d, idx+1, kv.K, what, time.Unix(0, int64(h.TS)).UTC()), wit(""))
				} else if h.Deleted() && h.TS >= crossLo && h.TS < crossHi {
					res.Count("markers_that_expired_during_the_pass_and_survived", 1)
				}
				if present && !bytes.Equal(got, kv.V) {
					res.Violate("protected-entry-altered", fmt.Sprintf("dbi %s key %s: untouched entry changed from %x to %x", d, kv.K, head(kv.V, 40), head(got, 40)), wit(""))
				}
			default:
				res.Count("markers_inside_bracket_not_judged", 1)
			}
		}
		// keys that did not exist before: only the writer may have created them
		for k, v := range am {
			if seen[k] {
				continue
			}
			w := touched[d+"\x00"+k]
			if w == nil {
				res.Violate("entry-appeared", fmt.Sprintf("dbi %s key %s appeared during the pass without an application write", d, k), wit(""))
				continue
			}
			judgeTouched(&res, d, k, w, v, true, cutLo, wit)
		}
		for id, w := range touched {
			parts := strings.SplitN(id, "\x00", 2)
			if parts[0] != d || seen[parts[1]] {
				continue
			}
			if _, present := am[parts[1]]; !present {
				judgeTouched(&res, d, parts[1], w, nil, false, cutLo, wit)
			}
		}
	}
	res.Count("resumes_after_swept_boundary_record", int64(resumes))
	// A second pass of the SAME sweeper, a moment later, with no commit in between: ladder markers that were still
	// young during the first pass have expired by the clock alone and must go now.
	if !preEpoch && len(res.More) == 0 && res.Verdict != runner.Violated {
		time.Sleep(300 * time.Millisecond)
		t0b := time.Now()
		if err := sw.VerifSweepOnce(context.Background()); err != nil {
			res.Violate("sweep-error", "the second sweep pass failed: "+err.Error(), map[string]any{"params": p})
			return
		}
		after2, _, _ := lmdbx.DumpEnv(e)
		cut2 := clamp(t0b.Add(-Rrepo))
		crossed := 0
		for _, d := range sweptDBIs {
			still := map[string]bool{}
			if ad := after2[d]; ad != nil {
				for _, kv := range ad.KVs {
					still[string(kv.K)] = true
				}
			}
			if ad := after[d]; ad != nil {
				for _, kv := range ad.KVs {
					h, _, err := hdr.Read(kv.V)
					if err != nil || !h.Deleted() || h.TS >= cut2 {
						continue
					}
					crossed++
					if still[string(kv.K)] {
						res.Violate("expired-marker-survived-second-pass", fmt.Sprintf("dbi %s key %s: deletion marker %v was younger than the retention during the first pass and older at the start of the second pass of the same sweeper (no commit in between): it is still present", d, kv.K, time.Unix(0, int64(h.TS)).UTC()), wit("second pass"))
					}
				}
			}
		}
		res.Count("second_passes", 1)
		res.Count("markers_expired_between_two_passes", int64(crossed))
	}
	// non-native: application data untouched, and nothing but _sync* DBIs changed
	for _, d := range appDBIs {
		one := lmdbx.Dump{d: before[d]}
		two := lmdbx.Dump{d: after[d]}
		if df := lmdbx.Diff(one, two); df != "" {
			res.Violate("application-dbi-changed", "non-native mode: the sweeper changed application data: "+df, wit(""))
		}
		res.Count("application_dbis_compared", 1)
	}
	var names []string
	for n := range after {
		names = append(names, n)
	}
	sort.Strings(names)
	res.NonTrivial = st.NTxn >= 2*p.NDBI && nExpired > 0 && nProtected > 0
	if preEpoch {
		res.Count("passes_with_retention_reaching_before_1970", 1)
	}
	res.Sample = map[string]any{"case": c.ID, "params": p, "slices": st.NTxn, "cleaned": st.NCleaned, "writer_commits": commitsBetween, "expired_placed": nExpired, "pass_ms": t1.Sub(t0).Milliseconds()}
	return
}

func judgeTouched(res *runner.Result, d, k string, w *wlog, got []byte, present bool, cutLo uint64, wit func(string) map[string]any) {
	res.Count("touched_keys_judged", 1)
	if w.val == nil {
		if present {
			res.Violate("touched-key-wrong", fmt.Sprintf("dbi %s key %s: the application deleted it physically during the pass but it is present", d, k), wit(""))
		}
		return
	}
	h, _, _ := hdr.Read(w.val)
	expiredWrite := h.Deleted() && h.TS < cutLo
	if !present {
		if !expiredWrite {
			res.Violate("touched-key-removed", fmt.Sprintf("dbi %s key %s: the application's last write (%s) was removed by the sweeper", d, k, w.kind), wit(""))
		}
		return
	}
	if !bytes.Equal(got, w.val) {
		res.Violate("touched-key-altered", fmt.Sprintf("dbi %s key %s: final bytes %x differ from the application's last write %x (%s)", d, k, head(got, 40), head(w.val, 40), w.kind), wit(""))
	}
}

func head(b []byte, n int) []byte {
	if len(b) > n {
		return b[:n]
	}
	return b
}
