// Package snapp holds the monitor for C06: every uploaded snapshot is the
// complete image of one committed LMDB transaction.
package snapp

import (
	"bytes"
	"context"
	"fmt"
	"github.com/PowerDNS/lightningstream/utils/verifhook"
	"sort"
	"strings"
	"sync"
	"sync/atomic"
	"time"

	"github.com/PowerDNS/lmdb-go/lmdb"

	"github.com/PowerDNS/lightningstream/snapshot"

	"verif/bucket"
	"verif/hdr"
	"verif/inst"
	"verif/lmdbx"
	"verif/rng"
	"verif/runner"
	"verif/sched"
	"verif/wire"
)

type c06Params struct {
	Part    string `json:"part"` // static | concurrent
	Native  bool   `json:"native"`
	Seed    uint64 `json:"seed"`
	NDBI    int    `json:"ndbi"`
	Entries int    `json:"entries"`
	BigVals bool   `json:"bigvals"`
	Dumps   int    `json:"dumps"`
}

func C06() *runner.Property {
	return &runner.Property{
		ID: "C06", Level: "exploration",
		Rule: "static: random LMDB contents (1-6 application DBIs incl. empty ones and DBIs with non-default flags, _sync_x decoys, up to 5000 entries, keys 1-511 bytes, values 0 bytes - 3 MB, native headers with 0-3 extension blocks, any timestamps and flag bytes) are dumped by the real SendOnce; the uploaded blob, decoded by the independent decoder, must contain every application DBI with the flags LMDB reports for it and every entry " +
			"(live, empty, deleted) with exactly the stored key, application value (after all extension blocks), timestamp and deleted flag, nothing from private DBIs, no fields beyond key/value/timestamp/flags, no flag bits outside the synced set; name and metadata must agree (database, instance, timestamp inside the wall-clock bracket of the call), later snapshots of an instance carry later times and sort later. " +
			"concurrent: an application goroutine commits multi-DBI transactions back-to-back (every transaction updates a counter in two DBIs, some create a new DBI and reference it from an index in the same transaction) while SendOnce runs repeatedly; native mode: the blob with metadata transaction id M must equal the writer's recorded state after its transaction M, for all DBIs at once; " +
			"shadow mode: the blob's live entries must equal exactly one state of the writer's commit sequence between the commits completed before the dump transaction started and those completed when it ended. Non-trivial = >= 2 DBIs and >= 1 marker or empty value; overlap of dumps with writer commits is counted.",
		Assumptions: []string{"only the harness writes to the LMDB besides Lightning Stream (so transaction ids identify writer states in native mode)", "shadow mode: the dump's transaction id is not observable without trusting the metadata under test: membership in the window is asserted instead"},
		BatchSize:   4, CaseTimeout: 240e9,
		Cases: func(tier string, seed int64) []runner.Case {
			r := rng.New(uint64(seed) ^ 0xC06)
			ns, nc := 40, 24
			if tier == "thorough" {
				ns, nc = 600, 300
			}
			var cs []runner.Case
			for i := 0; i < ns; i++ {
				p := c06Params{Part: "static", Native: i%2 == 0, Seed: r.U64(), NDBI: 1 + r.Intn(6), Entries: rng.Pick(r, 0, 1, 10, 200, 2000, 5000), BigVals: i%10 == 0, Dumps: 2}
				cs = append(cs, runner.MkCase("static", fmt.Sprintf("%d-native=%v-d%d-e%d-big=%v", i, p.Native, p.NDBI, p.Entries, p.BigVals), p))
			}
			for i := 0; i < nc; i++ {
				p := c06Params{Part: "concurrent", Native: i%2 == 0, Seed: r.U64(), NDBI: 2 + r.Intn(3), Entries: 30 + r.Intn(200), Dumps: 40}
				cs = append(cs, runner.MkCase("concurrent", fmt.Sprintf("%d-native=%v", i, p.Native), p))
			}
			return cs
		},
		Run: runC06,
	}
}

// checkWire: structural checks on the raw protobuf of a blob.
func checkWire(res *runner.Result, blob []byte, wit map[string]any) *wire.Snap {
	pb, err := wire.Gunzip(blob, 0)
	if err != nil {
		res.Violate("blob-not-gzip", err.Error(), wit)
		return nil
	}
	top, err := wire.Parse(pb)
	if err != nil {
		res.Violate("blob-invalid-protobuf", err.Error(), wit)
		return nil
	}
	for _, f := range top.F {
		if f.Num != 3 || f.WT != wire.WTBytes {
			continue
		}
		dm, err := wire.Parse(f.B)
		if err != nil {
			res.Violate("blob-invalid-protobuf", "dbi: "+err.Error(), wit)
			return nil
		}
		for _, df := range dm.F {
			if df.Num > 4 {
				res.Violate("unexpected-field-in-dbi", fmt.Sprintf("DBI message carries field %d", df.Num), wit)
			}
			if df.Num == 2 && df.WT == wire.WTBytes {
				km, err := wire.Parse(df.B)
				if err != nil {
					res.Violate("blob-invalid-protobuf", "kv: "+err.Error(), wit)
					return nil
				}
				for _, kf := range km.F {
					if kf.Num > 4 {
						res.Violate("unexpected-field-in-entry", fmt.Sprintf("entry carries field %d (local transaction ids and other bookkeeping must not be exported)", kf.Num), wit)
					}
					if kf.Num == 4 && kf.V&^1 != 0 {
						res.Violate("unsynced-flag-bits-exported", fmt.Sprintf("entry flags %#x contain bits outside the synced set", kf.V), wit)
					}
				}
			}
		}
	}
	s, err := wire.DecodeSnapshot(pb)
	if err != nil {
		res.Violate("blob-undecodable", err.Error(), wit)
		return nil
	}
	return s
}

// expectedFromDump computes what the snapshot must contain from a raw LMDB dump.
type expDBI struct {
	Flags   uint
	Entries map[string]inst.Ver
}

func expectedFromDump(d lmdbx.Dump, native bool) (map[string]*expDBI, error) {
	out := map[string]*expDBI{}
	for name, dd := range d {
		if strings.HasPrefix(name, "_sync") {
			continue
		}
		e := &expDBI{Flags: dd.Flags, Entries: map[string]inst.Ver{}}
		src := dd
		if !native {
			src = d[inst.ShadowPrefix+name]
			if src == nil {
				return nil, fmt.Errorf("no shadow DBI for %s", name)
			}
		}
		for _, kv := range src.KVs {
			h, app, err := hdr.Read(kv.V)
			if err != nil {
				return nil, fmt.Errorf("dbi %s key %x: %w", name, kv.K, err)
			}
			e.Entries[string(kv.K)] = inst.Ver{TS: h.TS, Del: h.Deleted(), Val: string(app)}
		}
		out[name] = e
	}
	return out, nil
}

func compareSnap(res *runner.Result, s *wire.Snap, exp map[string]*expDBI, wit map[string]any, what string) bool {
	ok := true
	seen := map[string]bool{}
	for _, d := range s.DBIs {
		if strings.HasPrefix(d.Name, "_sync") {
			res.Violate("private-dbi-in-snapshot", what+": snapshot contains the private DBI "+d.Name, wit)
			ok = false
			continue
		}
		if seen[d.Name] {
			res.Violate("dbi-twice-in-snapshot", what+": DBI "+d.Name+" appears twice", wit)
			ok = false
		}
		seen[d.Name] = true
		e := exp[d.Name]
		if e == nil {
			res.Violate("extra-dbi-in-snapshot", what+": snapshot contains DBI "+d.Name+" which does not exist in that transaction", wit)
			ok = false
			continue
		}
		if uint(d.Flags) != e.Flags {
			res.Violate("dbi-flags-differ", fmt.Sprintf("%s: DBI %s exported with flags %#x, LMDB reports %#x", what, d.Name, d.Flags, e.Flags), wit)
			ok = false
		}
		got := map[string]inst.Ver{}
		for _, kv := range d.Entries {
			v := inst.Ver{TS: kv.TS, Del: kv.Flags&1 != 0, Val: string(kv.Val)}
			if _, dup := got[string(kv.Key)]; dup {
				res.Violate("entry-twice-in-snapshot", fmt.Sprintf("%s: %s[%x] appears twice", what, d.Name, kv.Key), wit)
				ok = false
			}
			got[string(kv.Key)] = v
		}
		for k, ev := range e.Entries {
			gv, has := got[k]
			want := ev
			// a deleted-flag entry is judged like any other: the statement asks for exactly the stored application
			// value of "live entries, empty values and deletion markers alike" over contents with any flags, so bytes
			// a native writer left behind a deleted-flag header belong to the image (seed C06i dropped them)
			if !has {
				res.Violate("entry-missing-in-snapshot", fmt.Sprintf("%s: %s[%x] = %v is in the LMDB but not in the snapshot", what, d.Name, head([]byte(k), 40), ev), wit)
				ok = false
			} else if gv != want {
				res.Violate("entry-differs-in-snapshot", fmt.Sprintf("%s: %s[%x]: LMDB %v, snapshot (%d,del=%v,%d bytes)", what, d.Name, head([]byte(k), 40), short(ev), gv.TS, gv.Del, len(gv.Val)), wit)
				ok = false
			}
			if !ok && len(res.More) > 4 {
				return false
			}
		}
		for k := range got {
			if _, has := e.Entries[k]; !has {
				res.Violate("extra-entry-in-snapshot", fmt.Sprintf("%s: %s[%x] is in the snapshot but not in the LMDB transaction", what, d.Name, head([]byte(k), 40)), wit)
				ok = false
				break
			}
		}
	}
	for name := range exp {
		if !seen[name] {
			res.Violate("dbi-missing-in-snapshot", what+": application DBI "+name+" is not in the snapshot", wit)
			ok = false
		}
	}
	return ok
}

func short(v inst.Ver) string {
	return fmt.Sprintf("(%d,del=%v,%d bytes)", v.TS, v.Del, len(v.Val))
}

func head(b []byte, n int) []byte {
	if len(b) > n {
		return b[:n]
	}
	return b
}

func checkNameMeta(res *runner.Result, name string, s *wire.Snap, instName string, t0, t1 time.Time, prevName string, prevTS uint64, wit map[string]any) uint64 {
	ni, err := snapshot.ParseName(name)
	if err != nil {
		res.Violate("blob-name-unparsable", err.Error(), wit)
		return prevTS
	}
	if instName == "" {
		instName = s.Meta.InstanceID // not predicted: name and metadata must agree and be non-empty
	}
	if ni.SyncerName != "db" || s.Meta.DatabaseName != "db" || ni.InstanceID != instName || s.Meta.InstanceID != instName || instName == "" {
		res.Violate("name-metadata-identity", fmt.Sprintf("name (%s,%s) metadata (%s,%s) expected (db,%s)", ni.SyncerName, ni.InstanceID, s.Meta.DatabaseName, s.Meta.InstanceID, instName), wit)
	}
	ts := uint64(ni.Timestamp.UnixNano())
	if ts != s.Meta.TimestampNano {
		res.Violate("name-metadata-time-disagree", fmt.Sprintf("name time %d, metadata time %d", ts, s.Meta.TimestampNano), wit)
	}
	if ts < uint64(t0.UnixNano()) || ts > uint64(t1.UnixNano()) {
		res.Violate("snapshot-time-outside-call", fmt.Sprintf("snapshot time %d is outside the SendOnce call [%d, %d]", ts, t0.UnixNano(), t1.UnixNano()), wit)
	}
	if prevName != "" && !(name > prevName && ts > prevTS) {
		res.Violate("later-snapshot-not-later", fmt.Sprintf("snapshot %s (time %d) does not sort after the previous %s (time %d)", name, ts, prevName, prevTS), wit)
	}
	if s.FormatVersion != 3 {
		res.Violate("format-version", fmt.Sprintf("formatVersion %d", s.FormatVersion), wit)
	}
	return ts
}

func runC06(c runner.Case, env *runner.Env) (res runner.Result) {
	var p c06Params
	runner.Params(c, &p)
	res.Key = c.ID
	if p.Part == "static" {
		runStatic(p, env, &res, c.ID)
	} else {
		runConcurrent(p, env, &res, c.ID)
	}
	return
}

func runStatic(p c06Params, env *runner.Env, res *runner.Result, label string) {
	r := rng.New(p.Seed)
	ctx := context.Background()
	b := bucket.New()
	// the host's local time zone is not UTC (names and metadata are UTC whatever the zone; process-global, one case
	// at a time per process)
	time.Local = time.FixedZone("VERIF", rng.Pick(r, 0, 2*3600, -7*3600, 5*3600+1800, 13*3600))
	// instance names as an operator may configure them: the name in file name and metadata is the sanitised one
	instRaw := rng.Pick(r, "a", "a", "ns1.example.com", "dc1__ns1", "ns1_", "pod_auth__0", "a b", "x__", "_")
	x, err := inst.New(env.Dir("c06s"), b, "db", instRaw, inst.Opt{Native: p.Native, MapSize: 2 << 30})
	if err != nil {
		res.Verdict, res.Msg = runner.Inconclusive, err.Error()
		return
	}
	defer x.Close()
	markersOrEmpty := 0
	markersWithValue := 0
	_, err = lmdbx.Update(x.Env, func(txn *lmdb.Txn) error {
		for di := 0; di < p.NDBI; di++ {
			name := fmt.Sprintf("d%d", di)
			var cf uint
			n := p.Entries
			switch {
			case di == 1:
				n = 0 // an empty DBI
			case di == 2:
				n = rng.Pick(r, 0, 3)
			}
			if !p.Native {
				// non-default flags are only supported in non-native mode
				// MDB_REVERSEKEY is documented as unsupported; it only appears on the empty DBI
				cf = rng.Pick(r, uint(0), 0, 0x08)
				if di == 1 {
					cf = rng.Pick(r, uint(0x08), 0x0a, 0x02)
				}
			}
			dbi, err := txn.OpenDBI(name, lmdb.Create|cf)
			if err != nil {
				return err
			}
			for i := 0; i < n; i++ {
				var k []byte
				if cf&0x08 != 0 {
					k = make([]byte, 8)
					for j := range k {
						k[j] = byte((uint64(i)*2654435761 + 17) >> (8 * uint(j)))
					}
				} else {
					kl := rng.Pick(r, 1, 2, 8, 16, 100, 511)
					k = r.Bytes(kl)
					copy(k, fmt.Sprintf("%06d", i))
					if kl < 6 {
						k = []byte(fmt.Sprintf("%06d", i))
					}
				}
				vl := rng.Pick(r, 0, 0, 1, 5, 20, 100, 1000)
				if p.BigVals && i%97 == 0 {
					vl = rng.Pick(r, 100000, 1<<20, 3<<20)
				}
				val := r.Bytes(vl)
				var stored []byte
				if p.Native {
					fl := rng.Pick(r, uint8(0), 0, 0, 1, 1, 0x80, 0x81, 0xfe)
					ts := rng.Pick(r, uint64(0), 1, r.U64(), uint64(time.Now().UnixNano()))
					ext := r.Bytes(8 * rng.Pick(r, 0, 0, 0, 1, 2, 3))
					if fl&1 != 0 {
						// Lightning Stream's own markers have no value; a native application
						// may keep bytes behind a deleted-flag header (the schema allows it, the
						// image has to carry them unchanged)
						if r.Chance(1, 2) {
							val = nil
						} else if len(val) > 0 {
							markersWithValue++
						}
						markersOrEmpty++
					} else if vl == 0 {
						markersOrEmpty++
					}
					stored = hdr.Make(ts, r.U64(), fl, ext, val)
				} else {
					if vl == 0 {
						val = []byte{byte(i)} // live empty values in shadow mode are the C11 known finding
					}
					stored = val
				}
				if err := txn.Put(dbi, k, stored, 0); err != nil {
					return fmt.Errorf("put %s: %w", name, err)
				}
			}
		}
		// private decoys
		for _, pn := range []string{"_sync_x", "_syncfoo"} {
			if err := lmdbx.Put(txn, pn, 0, []byte("k"), hdr.Make(5, 1, 0, nil, []byte("private"))); err != nil {
				return err
			}
		}
		return nil
	})
	if err != nil {
		res.Verdict, res.Msg = runner.Inconclusive, "setup: "+err.Error()
		return
	}
	prevName, prevTS := "", uint64(0)
	for d := 0; d < p.Dumps; d++ {
		if d == 1 && !p.Native {
			// shadow mode: delete some keys so that the second dump carries markers
			_, _ = lmdbx.Update(x.Env, func(txn *lmdb.Txn) error {
				dd, err := lmdbx.ReadDBI(txn, "d0")
				if err != nil {
					return nil
				}
				for i, kv := range dd.KVs {
					if i%5 == 0 {
						_ = lmdbx.Del(txn, "d0", kv.K)
						markersOrEmpty++
					}
				}
				return nil
			})
		}
		// an application commit lands after SendOnce was called and before its LMDB transaction begins: the image
		// contains it, so the time the snapshot claims (name, metadata, capture stamps) cannot lie before that commit
		lateKey := []byte(fmt.Sprintf("zzlate%02d", d))
		var lateBegin time.Time
		lateDone := false
		verifhook.Set(func(instance, point, detail string) {
			if point != "send.before_txn" || lateDone {
				return
			}
			lateDone = true
			time.Sleep(2 * time.Millisecond)
			lateBegin = time.Now()
			_, _ = lmdbx.Update(x.Env, func(txn *lmdb.Txn) error {
				if p.Native {
					return inst.NativePut(txn, "d0", lateKey, uint64(time.Now().UnixNano()), false, []byte("late"))
				}
				return lmdbx.Put(txn, "d0", 0, lateKey, []byte("late"))
			})
		})
		t0 := time.Now()
		blobName, _, err := x.Send(ctx)
		t1 := time.Now()
		verifhook.Set(nil)
		wit := map[string]any{"params": p, "dump": d}
		if err != nil {
			sig := "sendonce-error"
			res.Violate(sig, "SendOnce failed on valid LMDB content: "+err.Error(), wit)
			return
		}
		data, _ := b.Get(blobName)
		s := checkWire(res, data, wit)
		if s == nil {
			return
		}
		dump, _, _ := lmdbx.DumpEnv(x.Env)
		exp, err := expectedFromDump(dump, p.Native)
		if err != nil {
			res.Violate("lmdb-value-unreadable-after-send", err.Error(), wit)
			return
		}
		compareSnap(res, s, exp, wit, fmt.Sprintf("dump %d", d))
		if lateDone {
			for _, dd := range s.DBIs {
				if dd.Name != "d0" {
					continue
				}
				for _, e := range dd.Entries {
					if string(e.Key) == string(lateKey) {
						res.Count("commits_between_call_and_transaction_found_in_image", 1)
						if s.Meta.TimestampNano < uint64(lateBegin.UnixNano()) {
							res.Violate("snapshot-time-before-contained-commit", fmt.Sprintf("the snapshot contains d0[%s], committed not before %d, but claims the time %d (%v earlier)", lateKey, lateBegin.UnixNano(), s.Meta.TimestampNano, time.Duration(uint64(lateBegin.UnixNano())-s.Meta.TimestampNano)), wit)
						}
						if !p.Native && e.TS < uint64(lateBegin.UnixNano()) {
							res.Violate("capture-stamp-before-commit", fmt.Sprintf("d0[%s] was committed not before %d and is stamped %d", lateKey, lateBegin.UnixNano(), e.TS), wit)
						}
					}
				}
			}
		}
		prevTS = checkNameMeta(res, blobName, s, "", t0, t1, prevName, prevTS, wit)
		res.Add("instance_names", fmt.Sprintf("%q", instRaw))
		prevName = blobName
		res.Count("dumps", 1)
		res.Count("entries_compared", int64(countEntries(exp)))
		res.Count("blob_bytes", int64(len(data)))
	}
	// shutdown in the middle of a dump: the context reports cancellation from its n-th inspection on (every place
	// where SendOnce looks at the context is a position); the storage ignores the context as the fs and memory
	// back ends do. Whatever ends up in the bucket must still be a complete image - or nothing is uploaded.
	for n := 1; n <= p.NDBI+8; n++ {
		_, _ = lmdbx.Update(x.Env, func(txn *lmdb.Txn) error { // a local change, so that a dump is due in both modes
			if p.Native {
				return inst.NativePut(txn, "d0", []byte(fmt.Sprintf("zzcan%03d", n)), uint64(time.Now().UnixNano()), false, []byte("v"))
			}
			return lmdbx.Put(txn, "d0", 0, []byte(fmt.Sprintf("zzcan%03d", n)), []byte("v"))
		})
		before := map[string]bool{}
		for _, nm := range b.Names() {
			before[nm] = true
		}
		cc := &countCtx{cancelAt: int32(n), done: make(chan struct{})}
		_, serr := x.S.SendOnce(cc, x.Env)
		wit := map[string]any{"params": p, "cancel_at_inspection": n, "sendonce_error": fmt.Sprint(serr), "inspections": atomic.LoadInt32(&cc.n)}
		for _, nm := range b.Names() {
			if before[nm] {
				continue
			}
			data, _ := b.Get(nm)
			sn := checkWire(res, data, wit)
			if sn == nil {
				continue
			}
			dump, _, _ := lmdbx.DumpEnv(x.Env)
			exp, err := expectedFromDump(dump, p.Native)
			if err == nil && !compareSnap(res, sn, exp, wit, fmt.Sprintf("snapshot uploaded although the context was cancelled at inspection %d", n)) {
				res.Count("partial_snapshots_after_cancel", 1)
			}
			res.Count("uploads_despite_cancel", 1)
		}
		res.Count("cancel_positions", 1)
		if atomic.LoadInt32(&cc.n) < int32(n) {
			break // SendOnce inspects the context fewer than n times: all positions covered
		}
	}
	res.NonTrivial = p.NDBI >= 2 && markersOrEmpty > 0
	res.Count("deleted_flag_entries_with_value", int64(markersWithValue))
	res.Sample = map[string]any{"case": label, "params": p, "markers_or_empty": markersOrEmpty, "markers_with_value": markersWithValue}
}

// countCtx is a context that is cancelled from its n-th inspection (Done or Err call) on.
type countCtx struct {
	cancelAt int32
	n        int32
	once     sync.Once
	done     chan struct{}
}

func (c *countCtx) tick() bool {
	if atomic.AddInt32(&c.n, 1) >= c.cancelAt {
		c.once.Do(func() { close(c.done) })
		return true
	}
	return false
}
func (c *countCtx) Deadline() (time.Time, bool) { return time.Time{}, false }
func (c *countCtx) Done() <-chan struct{}       { c.tick(); return c.done }
func (c *countCtx) Err() error {
	select {
	case <-c.done:
		return context.Canceled
	default:
		return nil
	}
}
func (c *countCtx) Value(any) any { return nil }

func countEntries(exp map[string]*expDBI) int {
	n := 0
	for _, e := range exp {
		n += len(e.Entries)
	}
	return n
}

// ---------------------------------------------------------------- concurrent writer

type wstate struct {
	txn  int64
	dbis map[string]map[string]inst.Ver // native: versions; shadow: Val only
}

func cloneState(m map[string]map[string]inst.Ver) map[string]map[string]inst.Ver {
	out := make(map[string]map[string]inst.Ver, len(m))
	for d, kv := range m {
		c := make(map[string]inst.Ver, len(kv))
		for k, v := range kv {
			c[k] = v
		}
		out[d] = c
	}
	return out
}

func runConcurrent(p c06Params, env *runner.Env, res *runner.Result, label string) {
	r := rng.New(p.Seed)
	ctx := context.Background()
	b := bucket.New()
	s := sched.New()
	defer s.Close()
	x, err := inst.New(env.Dir("c06c"), b, "db", "a", inst.Opt{Native: p.Native})
	if err != nil {
		res.Verdict, res.Msg = runner.Inconclusive, err.Error()
		return
	}
	defer x.Close()
	cur := map[string]map[string]inst.Ver{}
	var mu sync.Mutex
	var wmu sync.Mutex  // held by the writer across (LMDB commit + recording): the evaluation never sees a half-recorded commit
	var states []wstate // states[i] = content after the i-th writer commit (index 0 = initial)
	var completed int64 // number of writer commits completed (index of the newest state)
	dynN := 0
	createDBI := false // the next commit creates a DBI and references it from the index, in one transaction
	commit := func(wr *rng.R, n int64) error {
		next := cloneState(cur)
		type w struct {
			dbi, key string
			v        inst.Ver
		}
		var ws []w
		put := func(dbi, key string, del bool, val string) {
			v := inst.Ver{TS: uint64(time.Now().UnixNano()), Del: del, Val: val}
			if del {
				v.Val = ""
			}
			ws = append(ws, w{dbi, key, v})
		}
		// the counter in two DBIs
		put("d0", "counter", false, fmt.Sprint(n))
		put("d1", "counter", false, fmt.Sprint(n))
		for k := 0; k < 1+wr.Intn(4); k++ {
			d := fmt.Sprintf("d%d", wr.Intn(p.NDBI))
			key := fmt.Sprintf("k%03d", wr.Intn(p.Entries))
			if wr.Chance(1, 4) {
				put(d, key, true, "")
			} else {
				put(d, key, false, fmt.Sprintf("v%d-%s", n, strings.Repeat("x", wr.Intn(30))))
			}
		}
		if createDBI && ((p.Native && dynN < 30) || dynN < 12) {
			createDBI = false
			dynN++
			dn := fmt.Sprintf("dyn%03d", dynN)
			put(dn, "first", false, "created in txn "+fmt.Sprint(n))
			put("d0", "index-last-dbi", false, dn)
		}
		id, err := lmdbx.Update(x.Env, func(txn *lmdb.Txn) error {
			for _, e := range ws {
				if p.Native {
					if err := inst.NativePut(txn, e.dbi, []byte(e.key), e.v.TS, e.v.Del, []byte(e.v.Val)); err != nil {
						return err
					}
				} else if e.v.Del {
					if err := lmdbx.Del(txn, e.dbi, []byte(e.key)); err != nil {
						return err
					}
				} else if err := lmdbx.Put(txn, e.dbi, 0, []byte(e.key), []byte(e.v.Val)); err != nil {
					return err
				}
			}
			return nil
		})
		if err != nil {
			return err
		}
		for _, e := range ws {
			if !p.Native && e.v.Del && next[e.dbi] == nil {
				continue // a physical delete in a DBI that does not exist creates nothing
			}
			if next[e.dbi] == nil {
				next[e.dbi] = map[string]inst.Ver{}
			}
			if !p.Native && e.v.Del {
				delete(next[e.dbi], e.key)
			} else {
				next[e.dbi][e.key] = e.v
			}
		}
		cur = next
		mu.Lock()
		states = append(states, wstate{txn: id, dbis: next})
		mu.Unlock()
		atomic.AddInt64(&completed, 1)
		return nil
	}
	// initial content
	states = append(states, wstate{txn: 0, dbis: map[string]map[string]inst.Ver{}})
	wr := r.Derive(1)
	createDBI = true
	for i := 0; i < 5; i++ {
		if err := commit(wr, int64(i+1)); err != nil {
			res.Verdict, res.Msg = runner.Inconclusive, err.Error()
			return
		}
	}
	// the window of each dump, from the yield points around the dump transaction
	var winLo, winHi, dumpNo int64
	s.Delay = func(in, point string) {
		if in != "a" {
			return
		}
		switch point {
		case "send.before_txn":
			// every other dump: a DBI-creating transaction commits exactly between the
			// preparation of the dump and its LMDB transaction
			if atomic.AddInt64(&dumpNo, 1)%2 == 0 {
				wmu.Lock()
				createDBI = true
				_ = commit(wr, 1000000+atomic.LoadInt64(&dumpNo))
				wmu.Unlock()
			}
			atomic.StoreInt64(&winLo, atomic.LoadInt64(&completed))
		case "send.after_txn":
			atomic.StoreInt64(&winHi, atomic.LoadInt64(&completed))
		}
	}
	stop := make(chan struct{})
	wdone := make(chan error, 1)
	go func() {
		n := int64(6)
		for {
			select {
			case <-stop:
				wdone <- nil
				return
			default:
			}
			wmu.Lock()
			err := commit(wr, n)
			wmu.Unlock()
			if err != nil {
				wdone <- err
				return
			}
			n++
			if n%16 == 0 {
				time.Sleep(time.Duration(wr.Intn(300)) * time.Microsecond)
			}
		}
	}()
	prevName, prevTS := "", uint64(0)
	overlap := 0
	for d := 0; d < p.Dumps; d++ {
		before := atomic.LoadInt64(&completed)
		t0 := time.Now()
		blobName, _, err := x.Send(ctx)
		t1 := time.Now()
		after := atomic.LoadInt64(&completed)
		wit := map[string]any{"params": p, "dump": d}
		if err != nil {
			close(stop)
			<-wdone
			res.Violate("sendonce-error", "SendOnce failed while the application was writing: "+err.Error(), wit)
			return
		}
		if after > before {
			overlap++
		}
		data, _ := b.Get(blobName)
		snap := checkWire(res, data, wit)
		if snap == nil {
			break
		}
		prevTS = checkNameMeta(res, blobName, snap, "a", t0, t1, prevName, prevTS, wit)
		prevName = blobName
		got := inst.StateOfSnap(snap)
		res.Count("dumps", 1)
		wmu.Lock()
		mu.Lock()
		sts := append([]wstate{}, states...)
		mu.Unlock()
		wmu.Unlock()
		if p.Native {
			// The blob must be the image of exactly one committed transaction. The transaction id in the metadata
			// selects the candidate first; LMDB itself can hand a read transaction an id that lags behind the
			// snapshot it reads when writers commit twice between two instructions of mdb_txn_begin (the meta page
			// of the same parity is overwritten), so a blob that equals a later single state inside the window of
			// the call is accepted and counted ("metadata_txn_id_lagging"): the statement demands one transaction's
			// image, not a particular id.
			M := snap.Meta.LmdbTxnID
			matched := false
			var first string
			for i := range sts {
				if sts[i].txn == M {
					if df := inst.DiffState(got, inst.State(sts[i].dbis)); df == "" {
						matched = true
						res.Count("native_blob_equals_state_of_metadata_txn", 1)
					} else {
						first = df
					}
				}
			}
			if !matched {
				lo, hi := before, after+1
				if hi >= int64(len(sts)) {
					hi = int64(len(sts)) - 1
				}
				for j := lo; j <= hi && !matched; j++ {
					if sts[j].txn >= M && inst.DiffState(got, inst.State(sts[j].dbis)) == "" {
						matched = true
						res.Count("metadata_txn_id_lagging", 1)
					}
				}
			}
			if !matched {
				res.Violate("snapshot-not-one-transaction", fmt.Sprintf("snapshot %s (metadata transaction %d) equals no single committed state of the application, neither that transaction nor a later one inside the call (snapshot vs state %d): %s", blobName, M, M, first), wit)
			}
		} else {
			lo, hi := atomic.LoadInt64(&winLo), atomic.LoadInt64(&winHi)+1
			if hi >= int64(len(sts)) {
				hi = int64(len(sts)) - 1
			}
			matched := false
			var firstDiff string
			for j := lo; j <= hi && !matched; j++ {
				if df := diffLive(got, sts[j].dbis); df == "" {
					matched = true
				} else if firstDiff == "" {
					firstDiff = df
				}
			}
			if !matched {
				res.Violate("snapshot-not-one-transaction", fmt.Sprintf("snapshot %s equals none of the application's committed states %d..%d (window of the dump transaction); against state %d: %s", blobName, lo, hi, lo, firstDiff), wit)
			}
			res.Add("shadow_window_sizes", fmt.Sprint(hi-lo+1))
		}
	}
	close(stop)
	if err := <-wdone; err != nil {
		res.Verdict, res.Msg = runner.Inconclusive, "writer: "+err.Error()
		return
	}
	res.Count("writer_commits", atomic.LoadInt64(&completed))
	res.Count("dumps_overlapping_writer_commits", int64(overlap))
	res.NonTrivial = true
	res.Sample = map[string]any{"case": label, "params": p, "writer_commits": completed, "dumps": p.Dumps, "overlapping": overlap, "dynamic_dbis": dynN}
}

// diffLive compares the live entries of a snapshot with a plain application state;
// deletion markers in the snapshot must be keys absent from the state.
func diffLive(got inst.State, st map[string]map[string]inst.Ver) string {
	var out []string
	for d, kv := range st {
		g := got[d]
		if g == nil {
			return fmt.Sprintf("DBI %s missing in the snapshot", d)
		}
		for k, v := range kv {
			gv, ok := g[k]
			if !ok || gv.Del || gv.Val != v.Val {
				out = append(out, fmt.Sprintf("%s[%s]: state %q, snapshot %v(present=%v)", d, k, v.Val, gv, ok))
			}
		}
	}
	for d, g := range got {
		for k, gv := range g {
			if gv.Del {
				continue
			}
			if _, ok := st[d][k]; !ok {
				out = append(out, fmt.Sprintf("%s[%s]: live in the snapshot, absent in the state", d, k))
			}
		}
		if _, ok := st[d]; !ok && len(g) > 0 {
			out = append(out, fmt.Sprintf("DBI %s not in the state", d))
		}
	}
	sort.Strings(out)
	if len(out) > 4 {
		out = out[:4]
	}
	return strings.Join(out, "; ")
}

var _ = bytes.Equal
