// Package mirror holds the monitors for C11 (shadow mode mirrors application
// data faithfully) and C20 (the dupsort hack is reversible or refuses).
package mirror

import (
	"bytes"
	"context"
	"fmt"
	"sort"
	"time"

	"github.com/PowerDNS/lmdb-go/lmdb"

	"github.com/PowerDNS/lightningstream/snapshot"
	"github.com/PowerDNS/lightningstream/syncer"

	"verif/bucket"
	"verif/inst"
	"verif/lmdbx"
	"verif/rng"
	"verif/runner"
	"verif/wire"
)

type c20Params struct {
	Part  string `json:"part"` // one | set | cycle | refuse
	Seed  uint64 `json:"seed"`
	Count int    `json:"count"`
}

func C20() *runner.Property {
	return &runner.Property{
		ID:    "C20",
		Level: "exploration",
		Rule: "one: adversarial (key, value) pairs (keys 1-255 bytes, values 0-2000 bytes; runs of 0x00 next to the separator, key = prefix of another key + zeros, values starting with zeros, values longer than the room left sharing the first bytes, last byte equal to plausible length bytes) through the real encode/decode: decode(encode(p)) = p, encoded key <= 511 bytes, keys of 0 and > 255 bytes refused; " +
			"set: real MDB_DUPSORT DBI contents read in LMDB order -> the real set encoder: an error, or strictly increasing unique shadow keys that decode to the original list; " +
			"cycle: real Syncer with dupsort_hack on a dupsort DBI: SendOnce/LoadOnce mirror cycles over change histories (adds/removes of pairs incl. colliding long values, with larger keys present) leave the application's pair multiset exactly as the application wrote it plus merged remote changes, or fail with an error and an unchanged LMDB; uploaded blobs state transform=dupsort_hack_v1 and the original DBI flags; " +
			"refuse: native-mode and hack-less receivers, and inconsistent transform/flag combinations, refuse such blobs with an unchanged LMDB. Non-trivial = the pair/set contains a zero byte next to the separator region or a value longer than the room left.",
		Assumptions: []string{"values of one key sharing their first ~500 bytes are documented to be unsupported: the oracle demands refusal, not support"},
		BatchSize:   4,
		CaseTimeout: 180e9,
		Cases: func(tier string, seed int64) []runner.Case {
			r := rng.New(uint64(seed) ^ 0xC20)
			k := 3
			if tier == "thorough" {
				k = 150
			}
			var cs []runner.Case
			for i := 0; i < 4*k; i++ {
				cs = append(cs, runner.MkCase("one", fmt.Sprint(i), c20Params{Part: "one", Seed: r.U64(), Count: 30000}))
				cs = append(cs, runner.MkCase("set", fmt.Sprint(i), c20Params{Part: "set", Seed: r.U64(), Count: 150}))
			}
			for i := 0; i < 12*k; i++ {
				cs = append(cs, runner.MkCase("cycle", fmt.Sprint(i), c20Params{Part: "cycle", Seed: r.U64(), Count: 12}))
			}
			for i := 0; i < 2*k; i++ {
				cs = append(cs, runner.MkCase("refuse", fmt.Sprint(i), c20Params{Part: "refuse", Seed: r.U64(), Count: 20}))
			}
			return cs
		},
		Run: runC20,
	}
}

// adversarial key/value generators
func advKey(r *rng.R, pool [][]byte) []byte {
	n := rng.Pick(r, 1, 1, 2, 3, 5, 10, 100, 250, 251, 254, 255)
	k := make([]byte, n)
	for i := range k {
		k[i] = rng.Pick(r, byte(0), 0, 0, 1, 'a', 'b', 4, 5, 0xff)
	}
	if len(pool) > 0 && r.Chance(1, 2) {
		// prefix of another key plus zeros / plus bytes
		base := pool[r.Intn(len(pool))]
		ext := make([]byte, rng.Pick(r, 1, 2, 3, 4, 5))
		if r.Bool() {
			for i := range ext {
				ext[i] = rng.Pick(r, byte(0), 0, 1, 'v')
			}
		}
		k = append(append([]byte{}, base...), ext...)
		if len(k) > 255 {
			k = k[:255]
		}
	}
	return k
}

func advVal(r *rng.R, key []byte, pool [][]byte) []byte {
	room := 511 - len(key) - 4 - 1
	n := rng.Pick(r, 0, 0, 1, 2, 4, 5, 8, 50, room-1, room, room+1, room+2, 2000)
	if n < 0 {
		n = 0
	}
	v := make([]byte, n)
	for i := range v {
		v[i] = rng.Pick(r, byte(0), 0, 1, 'x', 'y', byte(len(key)), byte(len(key)+1), 0xff)
	}
	if len(pool) > 0 && r.Chance(1, 3) {
		// share a long prefix with another value
		base := pool[r.Intn(len(pool))]
		cut := len(base)
		if cut > 0 && r.Bool() {
			cut = r.Intn(cut + 1)
		}
		v = append(append([]byte{}, base[:cut]...), r.Bytes(rng.Pick(r, 0, 1, 3))...)
	}
	return v
}

func interesting(k, v []byte) bool {
	room := 511 - len(k) - 5
	if len(v) > room {
		return true
	}
	if len(k) > 0 && k[len(k)-1] == 0 {
		return true
	}
	if len(v) > 0 && v[0] == 0 {
		return true
	}
	return false
}

func runC20(c runner.Case, env *runner.Env) (res runner.Result) {
	var p c20Params
	runner.Params(c, &p)
	res.Key = c.ID
	r := rng.New(p.Seed)
	switch p.Part {
	case "one":
		var keys, vals [][]byte
		for i := 0; i < p.Count; i++ {
			k := advKey(r, keys)
			if i%200 == 0 {
				k = rng.Pick(r, []byte{}, r.Bytes(256), r.Bytes(300), r.Bytes(511))
			}
			v := advVal(r, k, vals)
			if len(keys) < 50 && len(k) > 0 && len(k) <= 250 {
				keys = append(keys, k)
			}
			if len(vals) < 50 {
				vals = append(vals, v)
			}
			fl := uint32(r.Intn(2))
			e, err := syncer.VerifDupSortEncodeOne(snapshot.KV{Key: k, Value: v, Flags: fl})
			res.Count("pairs", 1)
			wit := map[string]any{"key_hex": fmt.Sprintf("%x", k), "value_hex": fmt.Sprintf("%x", head(v, 600)), "value_len": len(v)}
			if len(k) == 0 || len(k) > 255 {
				if err == nil {
					res.Violate("bad-key-length-accepted", fmt.Sprintf("key of %d bytes was encoded instead of refused", len(k)), wit)
				}
				res.Count("refused_key_lengths", 1)
				continue
			}
			if err != nil {
				res.Violate("valid-pair-refused", fmt.Sprintf("pair with key of %d bytes refused: %v", len(k), err), wit)
				continue
			}
			if len(e.Key) > 511 || len(e.Key) == 0 {
				res.Violate("encoded-key-length", fmt.Sprintf("encoded key has %d bytes", len(e.Key)), wit)
			}
			if !bytes.Equal(e.Value, v) || e.Flags != fl {
				res.Violate("encode-altered-value", "value or flags changed by encoding", wit)
			}
			d, err := syncer.VerifDupSortDecodeOne(e)
			if err != nil {
				res.Violate("decode-error", fmt.Sprintf("decoding an encoded pair failed: %v", err), wit)
				continue
			}
			if !bytes.Equal(d.Key, k) || !bytes.Equal(d.Value, v) || d.Flags != fl {
				res.Violate("roundtrip-pair", fmt.Sprintf("decode(encode(k,v)) = (%x, %d bytes), expected (%x, %d bytes)", head(d.Key, 40), len(d.Value), head(k, 40), len(v)), wit)
			}
			if interesting(k, v) {
				res.Count("pairs_interesting", 1)
				res.NonTrivial = true
			}
		}
		// malformed shadow keys must be rejected by the decoder, not panic
		for i := 0; i < 2000; i++ {
			k := r.Bytes(r.Intn(12))
			_, _ = syncer.VerifDupSortDecodeOne(snapshot.KV{Key: k})
		}
		res.Sample = map[string]any{"case": c.ID, "pairs": p.Count}
	case "set":
		e, err := lmdbx.Open(env.Dir("c20set"), 256<<20)
		if err != nil {
			res.Verdict, res.Msg = runner.Inconclusive, err.Error()
			return
		}
		defer e.Close()
		for i := 0; i < p.Count; i++ {
			pairs := genPairs(r, 1+r.Intn(40), i%3 == 0)
			name := fmt.Sprintf("s%d", i%20)
			_, err := lmdbx.Update(e, func(txn *lmdb.Txn) error {
				dbi, err := txn.OpenDBI(name, lmdb.Create|lmdb.DupSort)
				if err != nil {
					return err
				}
				if err := txn.Drop(dbi, false); err != nil {
					return err
				}
				for _, pr := range pairs {
					if err := txn.Put(dbi, pr.K, pr.V, 0); err != nil {
						return err
					}
				}
				return nil
			})
			if err != nil {
				res.Verdict, res.Msg = runner.Inconclusive, "setup: "+err.Error()
				return
			}
			var stored []lmdbx.KV
			_ = e.View(func(txn *lmdb.Txn) error {
				d, err := lmdbx.ReadDBI(txn, name)
				if err == nil {
					stored = d.KVs
				}
				return err
			})
			d := snapshot.NewDBISize(1 << 16)
			d.SetName(name)
			d.SetFlags(uint64(lmdb.DupSort))
			for _, kv := range stored {
				d.Append(snapshot.KV{Key: kv.K, Value: kv.V})
			}
			res.Count("sets", 1)
			inter := false
			for _, kv := range stored {
				if interesting(kv.K, kv.V) {
					inter = true
				}
			}
			enc, err := syncer.VerifDupSortEncode(d)
			wit := map[string]any{"pairs": hexPairs(stored)}
			if err != nil {
				res.Count("sets_refused", 1)
				res.Add("refusal_reasons", firstWords(err.Error(), 6))
				if inter {
					res.NonTrivial = true
				}
				continue
			}
			if enc.Transform() != snapshot.TransformDupSortHackV1 {
				res.Violate("encoded-without-transform", fmt.Sprintf("encoded DBI has transform %q", enc.Transform()), wit)
			}
			var prev []byte
			enc.ResetCursor()
			n := 0
			for {
				kv, err := enc.Next()
				if err != nil {
					break
				}
				if prev != nil && bytes.Compare(prev, kv.Key) >= 0 {
					res.Violate("encoded-keys-not-increasing", fmt.Sprintf("encoded key #%d %x does not sort after %x although encoding succeeded", n, head(kv.Key, 40), head(prev, 40)), wit)
				}
				if len(kv.Key) > 511 {
					res.Violate("encoded-key-length", fmt.Sprintf("encoded key has %d bytes", len(kv.Key)), wit)
				}
				prev = append([]byte{}, kv.Key...)
				n++
			}
			dec, err := syncer.VerifDupSortDecode(enc)
			if err != nil {
				res.Violate("set-decode-error", err.Error(), wit)
				continue
			}
			var back []lmdbx.KV
			dec.ResetCursor()
			for {
				kv, err := dec.Next()
				if err != nil {
					break
				}
				back = append(back, lmdbx.KV{K: kv.Key, V: kv.Value})
			}
			if df := diffPairs(stored, back); df != "" {
				res.Violate("set-roundtrip", "decode(encode(set)) differs: "+df, wit)
			}
			if inter {
				res.NonTrivial = true
			}
		}
		res.Sample = map[string]any{"case": c.ID, "sets": p.Count}
	case "cycle":
		for i := 0; i < p.Count; i++ {
			runDupCycle(r, env, &res, fmt.Sprintf("%s#%d", c.ID, i))
			if res.Verdict == runner.Inconclusive {
				return
			}
		}
		res.Sample = map[string]any{"case": c.ID, "histories": p.Count}
	case "refuse":
		for i := 0; i < p.Count; i++ {
			runDupRefuse(r, env, &res)
			if res.Verdict == runner.Inconclusive {
				return
			}
		}
		res.NonTrivial = true
		res.Sample = map[string]any{"case": c.ID, "scenarios": p.Count}
	}
	return
}

type pair struct{ K, V []byte }

func genPairs(r *rng.R, n int, collide bool) []pair {
	var ps []pair
	var keys, vals [][]byte
	for len(ps) < n {
		k := advKey(r, keys)
		if len(k) == 0 {
			continue
		}
		v := advVal(r, k, vals)
		if !collide && len(v) > 511-len(k)-5 {
			v = v[:r.Intn(20)]
		}
		if len(v) > 511 {
			v = v[:511] // LMDB limits dupsort data items to the maximum key size
		}
		if len(v) == 0 {
			v = []byte{0} // and rejects empty data items once a key has duplicates
		}
		if len(keys) < 10 {
			keys = append(keys, k)
		}
		if len(vals) < 10 {
			vals = append(vals, v)
		}
		ps = append(ps, pair{k, v})
		if r.Chance(1, 2) { // more values for the same key
			v2 := advVal(r, k, [][]byte{v})
			if len(v2) > 511 {
				v2 = v2[:511]
			}
			if len(v2) == 0 {
				v2 = []byte{0, 0}
			}
			ps = append(ps, pair{k, v2})
		}
	}
	return ps
}

func hexPairs(kvs []lmdbx.KV) []string {
	var out []string
	for i, kv := range kvs {
		if i >= 16 {
			out = append(out, "...")
			break
		}
		out = append(out, fmt.Sprintf("%x=%x(len %d)", head(kv.K, 40), head(kv.V, 24), len(kv.V)))
	}
	return out
}

func diffPairs(a, b []lmdbx.KV) string {
	if len(a) != len(b) {
		return fmt.Sprintf("%d pairs vs %d pairs", len(a), len(b))
	}
	for i := range a {
		if !bytes.Equal(a[i].K, b[i].K) || !bytes.Equal(a[i].V, b[i].V) {
			return fmt.Sprintf("pair #%d: (%x,%d bytes) vs (%x,%d bytes)", i, head(a[i].K, 40), len(a[i].V), head(b[i].K, 40), len(b[i].V))
		}
	}
	return ""
}

func head(b []byte, n int) []byte {
	if len(b) > n {
		return b[:n]
	}
	return b
}

func firstWords(s string, n int) string {
	w := 0
	for i := range s {
		if s[i] == ' ' {
			w++
			if w == n {
				return s[:i]
			}
		}
	}
	return s
}

// pair multiset of a dupsort DBI as a sorted list
func readPairs(e *lmdb.Env, name string) ([]lmdbx.KV, uint, error) {
	var kvs []lmdbx.KV
	var fl uint
	err := e.View(func(txn *lmdb.Txn) error {
		d, err := lmdbx.ReadDBI(txn, name)
		if err != nil {
			return err
		}
		kvs, fl = d.KVs, d.Flags
		return nil
	})
	return kvs, fl, err
}

func sortPairs(ps []pair) []lmdbx.KV {
	m := map[string]bool{}
	var out []lmdbx.KV
	for _, p := range ps {
		id := string(p.K) + "\x00\x01\x02" + string(p.V)
		if m[id] {
			continue
		}
		m[id] = true
		out = append(out, lmdbx.KV{K: p.K, V: p.V})
	}
	sort.Slice(out, func(i, j int) bool {
		if c := bytes.Compare(out[i].K, out[j].K); c != 0 {
			return c < 0
		}
		return bytes.Compare(out[i].V, out[j].V) < 0
	})
	return out
}

// runDupCycle: an application maintains a dupsort DBI; LS mirrors it.
func runDupCycle(r *rng.R, env *runner.Env, res *runner.Result, label string) {
	ctx := context.Background()
	b := bucket.New()
	a, err := inst.New(env.Dir("dupA"), b, "db", "a", inst.Opt{DupSortHack: true})
	if err != nil {
		res.Verdict, res.Msg = runner.Inconclusive, err.Error()
		return
	}
	defer a.Close()
	rcv, err := inst.New(env.Dir("dupB"), b, "db", "b", inst.Opt{DupSortHack: true})
	if err != nil {
		res.Verdict, res.Msg = runner.Inconclusive, err.Error()
		return
	}
	defer rcv.Close()
	const dbi = "dups"
	collide := r.Chance(1, 2)
	emptyVal := r.Chance(1, 6)
	var want []pair // what the application has written
	steps := 2 + r.Intn(4)
	var trace []string
	for s := 0; s < steps; s++ {
		// application change set
		var add []pair
		var del []int
		if s == 0 {
			add = genPairs(r, 2+r.Intn(8), false)
			// a large key so that later additions are not appended at the end
			add = append(add, pair{[]byte("zzz"), []byte("last")})
			if emptyVal {
				// a key whose only value is empty (LMDB accepts that in a dupsort DBI)
				add = append(add, pair{[]byte("empty-value-key"), []byte{}})
			}
		} else {
			if collide && r.Chance(2, 3) && len(want) > 0 {
				// a second long value for an existing key sharing the first bytes
				base := want[r.Intn(len(want))]
				room := 511 - len(base.K) - 5
				long := bytes.Repeat([]byte{'L'}, room+rng.Pick(r, 0, 1, 4))
				add = append(add, pair{base.K, append(append([]byte{}, long...), 'A')}, pair{base.K, append(append([]byte{}, long...), 'B')})
			} else {
				add = genPairs(r, 1+r.Intn(3), collide)
			}
			for j := range want {
				if r.Chance(1, 6) {
					del = append(del, j)
				}
			}
		}
		before, _, _ := lmdbx.DumpEnv(a.Env)
		_, err := lmdbx.Update(a.Env, func(txn *lmdb.Txn) error {
			d, err := txn.OpenDBI(dbi, lmdb.Create|lmdb.DupSort)
			if err != nil {
				return err
			}
			for _, j := range del {
				if err := txn.Del(d, want[j].K, want[j].V); err != nil && !lmdb.IsNotFound(err) {
					return err
				}
			}
			for _, p := range add {
				if err := txn.Put(d, p.K, p.V, 0); err != nil {
					return err
				}
			}
			return nil
		})
		if err != nil {
			res.Verdict, res.Msg = runner.Inconclusive, "app write: "+err.Error()
			return
		}
		// the application's content is a set of pairs
		id := func(p pair) string { return string(p.K) + "\x00\x01\x02" + string(p.V) }
		gone := map[string]bool{}
		for _, j := range del {
			gone[id(want[j])] = true
		}
		seen := map[string]bool{}
		var nw []pair
		for _, p := range append(append([]pair{}, want...), add...) {
			isAdd := false
			for _, q := range add {
				if id(q) == id(p) {
					isAdd = true
				}
			}
			if (gone[id(p)] && !isAdd) || seen[id(p)] {
				continue
			}
			seen[id(p)] = true
			nw = append(nw, p)
		}
		want = nw
		appAfterWrite, _, _ := readPairs(a.Env, dbi)
		trace = append(trace, fmt.Sprintf("step %d: +%d -%d pairs", s, len(add), len(del)))
		_ = before
		// LS: upload, then a merge of a no-news snapshot (full mirror cycle)
		blob, _, serr := a.Send(ctx)
		res.Count("mirror_steps", 1)
		wit := map[string]any{"label": label, "trace": trace, "pairs": hexPairs(appAfterWrite)}
		if serr != nil {
			// refusal: application data must be untouched
			now, _, _ := readPairs(a.Env, dbi)
			if df := diffPairs(appAfterWrite, now); df != "" {
				res.Violate("refused-but-altered", fmt.Sprintf("SendOnce refused the data (%v) but the application DBI changed: %s", serr, df), wit)
			}
			res.Count("cycles_refused", 1)
			res.Add("refusal_reasons", firstWords(serr.Error(), 8))
			res.NonTrivial = true
			return
		}
		_, _, lerr := a.LoadSnap(ctx, inst.EmptySnap("db", "x"), "x", time.Now(), 0)
		now, fl, _ := readPairs(a.Env, dbi)
		if lerr != nil {
			if df := diffPairs(appAfterWrite, now); df != "" {
				res.Violate("refused-but-altered", fmt.Sprintf("LoadOnce failed (%v) but the application DBI changed: %s", lerr, df), wit)
			}
			// SendOnce has just accepted exactly this content (the refusals for
			// non-unique / mis-ordered mappings are made in mainToShadow, which
			// SendOnce ran on the same data): a merge of a no-news snapshot that
			// fails now is not a refusal of unmappable data, the mirror cycle
			// itself broke (e.g. on the deletion markers of removed pairs).
			res.Violate("mirror-cycle-load-fails-after-accepted-send", fmt.Sprintf("SendOnce accepted the DBI but the following LoadOnce(no news) failed: %v", lerr), wit)
			res.Count("cycles_load_failed", 1)
			res.NonTrivial = true
			return
		}
		if len(del) > 0 {
			res.Count("cycles_with_removed_pairs", 1)
		}
		if df := diffPairs(sortPairs(want), now); df != "" {
			// classify: only pairs with an empty value are missing
			nonEmpty := []pair{}
			for _, p := range want {
				if len(p.V) > 0 {
					nonEmpty = append(nonEmpty, p)
				}
			}
			if diffPairs(sortPairs(nonEmpty), now) == "" {
				res.Violate("shadow-live-empty-value-removed", "a pair with an empty value was removed from the application's dupsort DBI by the mirror cycle: "+df, wit)
				return
			}
			res.Violate("mirror-cycle-changed-pairs", "after SendOnce + LoadOnce(no news) the application's dupsort DBI differs from what the application wrote: "+df, wit)
			return
		}
		if fl&lmdb.DupSort == 0 {
			res.Violate("dupsort-flag-lost", "application DBI lost MDB_DUPSORT", wit)
		}
		// the uploaded blob states the transform and the original flags
		if blob != "" {
			data, _ := b.Get(blob)
			ws, err := wire.DecodeBlob(data)
			if err != nil {
				res.Violate("blob-undecodable", err.Error(), wit)
				return
			}
			for _, d := range ws.DBIs {
				if d.Name == dbi {
					if d.Transform != "dupsort_hack_v1" {
						res.Violate("blob-without-transform", fmt.Sprintf("dupsort DBI uploaded with transform %q", d.Transform), wit)
					}
					if uint(d.Flags)&lmdb.DupSort == 0 {
						res.Violate("blob-flags-not-original", fmt.Sprintf("dupsort DBI uploaded with flags %#x", d.Flags), wit)
					}
					live := 0
					for _, e := range d.Entries {
						if e.Flags&1 == 0 {
							live++
						}
					}
					if live != len(now) {
						res.Violate("blob-pair-count", fmt.Sprintf("blob has %d live entries, application DBI %d pairs", live, len(now)), wit)
					}
				}
			}
			// remote changes arrive on another instance with the hack
			if _, _, err := rcv.LoadBlob(ctx, blob, 0); err != nil {
				res.Violate("receiver-with-hack-refuses", "an instance with dupsort_hack refuses the blob: "+err.Error(), wit)
				return
			}
			got, rfl, err := readPairs(rcv.Env, dbi)
			if err != nil {
				res.Violate("receiver-missing-dbi", err.Error(), wit)
				return
			}
			if df := diffPairs(now, got); df != "" {
				res.Violate("receiver-pairs-differ", "the receiving instance's dupsort DBI differs from the sender's: "+df, wit)
			}
			if rfl&lmdb.DupSort == 0 {
				res.Violate("receiver-dbi-not-dupsort", fmt.Sprintf("receiver created the DBI with flags %#x", rfl), wit)
			}
			res.Count("remote_merges", 1)
		}
		for _, p := range want {
			if interesting(p.K, p.V) {
				res.NonTrivial = true
			}
		}
	}
}

// runDupRefuse: receivers without the transform refuse, inconsistent snapshots are refused.
func runDupRefuse(r *rng.R, env *runner.Env, res *runner.Result) {
	ctx := context.Background()
	b := bucket.New()
	// a consistent dupsort snapshot, built by the independent encoder
	mk := func(flags uint64, transform string, format uint32) *wire.Snap {
		return &wire.Snap{FormatVersion: format, CompatVersion: 1, Meta: wire.Meta{DatabaseName: "db", InstanceID: "s", GenerationID: "GX", TimestampNano: 5},
			DBIs: []wire.DBI{
				{Name: "plain", Entries: []wire.KV{{Key: []byte("p"), Val: []byte("1"), TS: 10}}},
				{Name: "dups", Flags: flags, Transform: transform, Entries: []wire.KV{{Key: append([]byte("host\x00\x00\x00\x00addr-1"), 4), Val: []byte("addr-1"), TS: 10}}},
			}}
	}
	type sc struct {
		name     string
		opt      inst.Opt
		snap     *wire.Snap
		mustFail bool
	}
	ds := uint64(lmdb.DupSort)
	scs := []sc{
		{"native receiver, consistent dupsort blob", inst.Opt{Native: true}, mk(ds, "dupsort_hack_v1", 3), true},
		{"native receiver, dupsort flag without transform", inst.Opt{Native: true}, mk(ds, "", 3), true},
		{"shadow receiver without hack, consistent dupsort blob", inst.Opt{}, mk(ds, "dupsort_hack_v1", 3), true},
		{"shadow receiver with hack, transform without dupsort flag", inst.Opt{DupSortHack: true}, mk(0, "dupsort_hack_v1", 3), true},
		{"shadow receiver with hack, dupsort flag without transform", inst.Opt{DupSortHack: true}, mk(ds, "", 3), true},
		{"shadow receiver with hack, unknown transform", inst.Opt{DupSortHack: true}, mk(ds, "dupsort_hack_v2", 3), true},
		{"shadow receiver with hack, consistent blob", inst.Opt{DupSortHack: true}, mk(ds, "dupsort_hack_v1", 3), false},
	}
	s := scs[r.Intn(len(scs))]
	x, err := inst.New(env.Dir("refuse"), b, "db", "r", s.opt)
	if err != nil {
		res.Verdict, res.Msg = runner.Inconclusive, err.Error()
		return
	}
	defer x.Close()
	// some existing data
	_, _ = lmdbx.Update(x.Env, func(txn *lmdb.Txn) error {
		if s.opt.Native {
			return inst.NativePut(txn, "plain", []byte("p"), 3, false, []byte("0"))
		}
		return lmdbx.Put(txn, "plain", 0, []byte("p"), []byte("0"))
	})
	if !s.opt.Native {
		if _, _, err := x.Send(ctx); err != nil {
			res.Verdict, res.Msg = runner.Inconclusive, "initial send: "+err.Error()
			return
		}
	}
	before, _, _ := lmdbx.DumpEnv(x.Env)
	lastBefore := lmdbx.LastTxnID(x.Env)
	_, _, lerr := x.LoadSnap(ctx, s.snap, "s", time.Now(), 0)
	after, _, _ := lmdbx.DumpEnv(x.Env)
	res.Count("refusal_scenarios", 1)
	res.Add("scenario_kinds", s.name)
	wit := map[string]any{"scenario": s.name}
	if s.mustFail {
		if lerr == nil {
			res.Violate("inconsistent-or-unsupported-blob-accepted", s.name+": LoadOnce accepted the snapshot", wit)
		}
		if df := lmdbx.Diff(before, after); df != "" {
			res.Violate("refused-blob-changed-lmdb", s.name+": LMDB changed although the snapshot must be refused: "+df, wit)
		} else if lmdbx.LastTxnID(x.Env) != lastBefore {
			res.Violate("refused-blob-committed-txn", s.name+": an LMDB transaction was committed", wit)
		}
	} else if lerr != nil {
		res.Violate("consistent-blob-refused", s.name+": "+lerr.Error(), wit)
	}
}
