package mirror

import (
	"bytes"
	"context"
	"encoding/binary"
	"fmt"
	"sort"
	"strings"
	"time"

	"github.com/PowerDNS/lightningstream/config"
	"github.com/PowerDNS/lightningstream/lmdbenv/header"
	"github.com/PowerDNS/lightningstream/utils/verifhook"
	"github.com/PowerDNS/lmdb-go/lmdb"

	"verif/bucket"
	"verif/hdr"
	"verif/inst"
	"verif/lmdbx"
	"verif/lsx"
	"verif/rng"
	"verif/runner"
	"verif/wire"
)

// ---------------------------------------------------------------- reference model (written from the statement)

type mirrorModel struct {
	main   map[string]map[string]string   // application DBIs
	flags  map[string]uint                // application DBI flags
	shadow map[string]map[string]inst.Ver // timestamped state
	// staleBefore: with the sweeper enabled, a remote deletion marker older than this is not created for a key the
	// timestamped state has no entry for (0 = sweeper disabled)
	staleBefore uint64
}

func newMirrorModel() *mirrorModel {
	return &mirrorModel{main: map[string]map[string]string{}, flags: map[string]uint{}, shadow: map[string]map[string]inst.Ver{}}
}

// capture: every change the application made is a new version stamped now;
// untouched entries keep their stamps. A new version competes by
// last-writer-wins with what is stored. Returns the keys stamped.
func (m *mirrorModel) capture(now uint64) (stamped []string) {
	for dbi, kv := range m.main {
		sh := m.shadow[dbi]
		if sh == nil {
			sh = map[string]inst.Ver{}
			m.shadow[dbi] = sh
		}
		for k, v := range kv {
			old, ok := sh[k]
			if !ok || old.Del || old.Val != v {
				cand := inst.Ver{TS: now, Val: v}
				if !ok || cand.TS > old.TS {
					sh[k] = cand
					stamped = append(stamped, dbi+"/"+k)
				}
			}
		}
		for k, old := range sh {
			if _, present := kv[k]; !present && !old.Del {
				cand := inst.Ver{TS: now, Del: true}
				if cand.TS > old.TS {
					sh[k] = cand
					stamped = append(stamped, dbi+"/"+k)
				}
			}
		}
	}
	return
}

// merge a remote snapshot by last-writer-wins (no equal timestamps are generated).
func (m *mirrorModel) merge(s *wire.Snap) {
	for _, d := range s.DBIs {
		if strings.HasPrefix(d.Name, "_sync") {
			continue
		}
		if _, ok := m.main[d.Name]; !ok {
			m.main[d.Name] = map[string]string{}
			m.flags[d.Name] = uint(d.Flags)
		}
		sh := m.shadow[d.Name]
		if sh == nil {
			sh = map[string]inst.Ver{}
			m.shadow[d.Name] = sh
		}
		for _, e := range d.Entries {
			v := inst.Ver{TS: e.TS, Del: e.Flags&1 != 0, Val: string(e.Val)}
			if v.Del {
				v.Val = ""
			}
			old, ok := sh[string(e.Key)]
			if !ok && v.Del && v.TS < m.staleBefore {
				continue
			}
			if !ok || v.TS > old.TS {
				sh[string(e.Key)] = v
			}
		}
	}
}

// project: the application's DBIs contain exactly the live entries.
func (m *mirrorModel) project() {
	for dbi := range m.main {
		nm := map[string]string{}
		for k, v := range m.shadow[dbi] {
			if !v.Del {
				nm[k] = v.Val
			}
		}
		m.main[dbi] = nm
	}
}

// ---------------------------------------------------------------- cases

type c11Params struct {
	Seed    uint64 `json:"seed"`
	Steps   int    `json:"steps"`
	IntKeys int    `json:"intkeys"` // 0 none, 4, 8
	Empty   bool   `json:"empty"`   // include empty application values (known-finding family)
	NDBI    int    `json:"ndbi"`
	// Proto: the steps follow the sync loop's transaction-id protocol instead of always forcing a capture: LoadOnce
	// gets the id the loop would consider synced, SendOnce is called only when LMDB's last id is above it, and the
	// returned ids are carried forward exactly as syncLoop does. A wrong id makes a capture be skipped.
	Proto bool `json:"loop_protocol,omitempty"`
	// Future: some remote versions carry stamps far in the future (a peer with a wrong clock). The application's later
	// change of such a key loses; its DBI must then show the winning remote value again after the next load step.
	Future bool `json:"future_remote_stamps,omitempty"`
	// Window (loop-protocol mode only): the sweeper is enabled in the configuration (stale-marker cutoff active, it
	// never runs), some remote snapshots bring nothing but a deletion marker past the retention for an absent key, and
	// some application commits land inside a sync step: after its LMDB transaction ended, before it returns.
	Window bool `json:"commits_inside_steps,omitempty"`
	// RecvOnly (loop-protocol mode): the instance runs receive-only; capture and projection work as ever, nothing is
	// ever stored
	RecvOnly bool `json:"receive_only,omitempty"`
}

func C11() *runner.Property {
	return &runner.Property{
		ID:    "C11",
		Level: "exploration",
		Rule: "a real Syncer in non-native mode is stepped through its exported API (SendOnce = capture; LoadOnce(snapshot, 0) = capture + merge + project) over generated histories: 1-4 application DBIs (plain, 4- and 8-byte MDB_INTEGERKEY with keys 0, 1, 255, 256, 2^31, 2^32-1, 2^63...), keys with 0x00/0xff and common prefixes, " +
			"random change sets between steps (insert, overwrite, delete, overwrite-with-same, whole-DBI creation), remote snapshots merged in between (older, newer, deleting, adding DBIs). After every step the real application DBIs and the real shadow DBIs (read raw, parsed by the independent header reader) must equal a map model written from the statement; " +
			"new stamps are not predicted: they must lie inside the wall-clock bracket of the step and be identical for all entries captured in it. Every changed shadow value must carry a well-formed header with the id of the writing transaction. Non-trivial = the step captured >= 1 local change or merged >= 1 remote change; distinct by history seed.",
		Assumptions: []string{"remote versions carry timestamps in the past of the local clock (instances share one monotone clock, the documented operating assumption of shadow mode)", "steady state (syncer running); remote timestamps are generated distinct from each other and from local clock reads, so no tie-break is involved", "the sweeper is disabled"},
		BatchSize:   10,
		CaseTimeout: 120e9,
		Cases: func(tier string, seed int64) []runner.Case {
			r := rng.New(uint64(seed) ^ 0xC11)
			n := 900
			if tier == "thorough" {
				n = 30000
			}
			var cs []runner.Case
			for i := 0; i < n; i++ {
				p := c11Params{Seed: r.U64(), Steps: 5 + r.Intn(36), IntKeys: []int{0, 0, 4, 8}[i%4], NDBI: 1 + r.Intn(4), Empty: i%10 == 9, Proto: i%2 == 1 && i%10 != 9, Future: i%10 == 6 || i%10 == 7}
				p.Window = p.Proto && !p.Future && i%4 == 1
				p.RecvOnly = p.Proto && !p.Future && i%8 == 3
				fam := "bytes"
				if p.IntKeys > 0 {
					fam = fmt.Sprintf("int%d", p.IntKeys)
				}
				if p.Empty {
					fam += "-emptyvalues"
				}
				if p.Proto {
					fam += "-loopprotocol"
				}
				if p.Future {
					fam += "-futurestamps"
				}
				if p.Window {
					fam += "-window"
				}
				if p.RecvOnly {
					fam += "-recvonly"
				}
				cs = append(cs, runner.MkCase(fam, fmt.Sprint(i), p))
			}
			return cs
		},
		Run: runC11,
	}
}

var c11IntPool = []uint64{0, 1, 255, 256, 65535, 1 << 31, 1<<32 - 1, 1 << 32, 1 << 62, 1 << 63, 1<<63 + 5, 1<<64 - 1}

func c11Key(r *rng.R, intKeys int) []byte {
	switch intKeys {
	case 4:
		b := make([]byte, 4)
		binary.LittleEndian.PutUint32(b, uint32(c11IntPool[r.Intn(8)]))
		if r.Chance(1, 4) {
			binary.LittleEndian.PutUint32(b, uint32(r.U64()))
		}
		return b
	case 8:
		b := make([]byte, 8)
		binary.LittleEndian.PutUint64(b, c11IntPool[r.Intn(len(c11IntPool))])
		if r.Chance(1, 4) {
			binary.LittleEndian.PutUint64(b, r.U64())
		}
		return b
	}
	pool := []string{"a", "b", "ab", "a\x00", "a\x00b", "\x00", "\xff", "\xff\xff", "k1", "k2", "key-with-a-longer-name", "z"}
	return []byte(pool[r.Intn(len(pool))])
}

// absentKey is a key no generator produces.
func absentKey(intKeys, step int) []byte {
	if intKeys > 0 {
		kb := make([]byte, intKeys)
		kb[0], kb[1] = byte(step), 0x77
		return kb
	}
	return []byte(fmt.Sprintf("zz-never-there-%d", step))
}

func c11Val(r *rng.R, empty bool) string {
	if empty && r.Chance(1, 3) {
		return ""
	}
	return rng.Pick(r, "v", "w", "value-1", "value-2", "x\x00y", string(r.Bytes(1+r.Intn(40))))
}

func runC11(c runner.Case, env *runner.Env) (res runner.Result) {
	var p c11Params
	runner.Params(c, &p)
	res.Key = c.ID
	r := rng.New(p.Seed)
	ctx := context.Background()
	b := bucket.New()
	opt := inst.Opt{}
	if p.Window {
		conf := lsx.FastConfig("a")
		conf.Sweeper = config.Sweeper{Enabled: true, RetentionDays: 1, Interval: time.Hour, FirstInterval: time.Hour, LockDuration: time.Second, ReleaseDuration: time.Second}
		opt.Conf = &conf
	}
	opt.Options.ReceiveOnly = p.RecvOnly
	x, err := inst.New(env.Dir("c11"), b, "db", "a", opt)
	if err != nil {
		res.Verdict, res.Msg = runner.Inconclusive, err.Error()
		return
	}
	defer x.Close()
	m := newMirrorModel()
	if p.Window {
		m.staleBefore = uint64(time.Now().Add(-36 * time.Hour).UnixNano()) // retention 1 day; remote stamps are from 2001
	}
	dbiNames := []string{"d0", "d1", "d2", "d3"}[:p.NDBI]
	createFlags := uint(0)
	if p.IntKeys > 0 {
		createFlags = 0x08
	}
	var trace []string
	remoteTS := uint64(1000000000000000000) // 2001: older than every local stamp
	var lastSynced header.TxnID             // loop-protocol mode: the id syncLoop would consider synced
	steps := 0
	var script []string
	for step := 0; step < p.Steps || len(script) > 0; step++ {
		// ---- application change set
		nch := r.Intn(6)
		// window mode: now and then a scripted triple - a send that leaves everything synced, a load that brings only
		// a stale marker while the application commits inside it and at no other time, a load that brings nothing
		forced := ""
		if len(script) > 0 {
			forced, script = script[0], script[1:]
		} else if p.Window && r.Chance(1, 5) {
			forced, script = "send", []string{"load-staletomb+win", "load-empty"}
		}
		if forced != "" {
			nch = 0
		}
		type change struct {
			dbi string
			key []byte
			val string
			del bool
		}
		var chs []change
		for i := 0; i < nch; i++ {
			d := dbiNames[r.Intn(len(dbiNames))]
			k := c11Key(r, p.IntKeys)
			switch r.Intn(4) {
			case 0: // delete an existing key if any
				if mm := m.main[d]; len(mm) > 0 {
					ks := sortedKeys(mm)
					chs = append(chs, change{dbi: d, key: []byte(ks[r.Intn(len(ks))]), del: true})
					continue
				}
				fallthrough
			case 1: // overwrite with the same value
				if mm := m.main[d]; len(mm) > 0 {
					ks := sortedKeys(mm)
					kk := ks[r.Intn(len(ks))]
					chs = append(chs, change{dbi: d, key: []byte(kk), val: mm[kk]})
					continue
				}
				fallthrough
			default:
				chs = append(chs, change{dbi: d, key: k, val: c11Val(r, p.Empty)})
			}
		}
		if len(chs) > 0 {
			_, err := lmdbx.Update(x.Env, func(txn *lmdb.Txn) error {
				for _, ch := range chs {
					if ch.del {
						if err := lmdbx.Del(txn, ch.dbi, ch.key); err != nil {
							return err
						}
					} else if err := lmdbx.Put(txn, ch.dbi, createFlags, ch.key, []byte(ch.val)); err != nil {
						return err
					}
				}
				return nil
			})
			if err != nil {
				res.Verdict, res.Msg = runner.Inconclusive, "application write: "+err.Error()
				return
			}
			for _, ch := range chs {
				if m.main[ch.dbi] == nil {
					m.main[ch.dbi] = map[string]string{}
					m.flags[ch.dbi] = createFlags
				}
				if ch.del {
					delete(m.main[ch.dbi], string(ch.key))
				} else {
					m.main[ch.dbi][string(ch.key)] = ch.val
				}
			}
		}
		// ---- Lightning Stream step
		beforeDump, _, _ := lmdbx.DumpEnv(x.Env)
		_ = lastSynced
		lastBefore := lmdbx.LastTxnID(x.Env)
		kind := rng.Pick(r, "send", "load-empty", "load-remote", "load-remote")
		staleTomb := false
		if p.Window && kind == "load-empty" && r.Bool() {
			staleTomb = true
		}
		switch forced {
		case "send":
			kind, staleTomb = "send", false
		case "load-staletomb+win":
			kind, staleTomb = "load-empty", true
		case "load-empty":
			kind, staleTomb = "load-empty", false
		}
		// a commit inside the step: made from the yield point between the end of the step's LMDB transaction and its
		// return (the instant at which LMDB may hand the id of an unrecorded transaction to the application)
		var inWin *change
		winFired := false
		var earlyKey []byte
		earlyVal := fmt.Sprintf("before-txn-%d", step)
		earlyFired := false
		var earlyBegin uint64
		if p.Window && forced == "" && r.Chance(1, 3) {
			earlyKey = []byte(fmt.Sprintf("pre-%02d", step%5))
			if p.IntKeys > 0 {
				earlyKey = make([]byte, p.IntKeys)
				earlyKey[0] = byte(220 + step%5)
			}
		}
		if p.Window && ((forced == "" && r.Chance(1, 2)) || forced == "load-staletomb+win") && len(dbiNames) > 0 {
			d := dbiNames[0]
			if _, ok := m.main[d]; ok || true {
				inWin = &change{dbi: d, key: []byte(fmt.Sprintf("win-%02d", step%7)), val: fmt.Sprintf("in-window-%d", step)}
				if p.IntKeys > 0 {
					kb := make([]byte, p.IntKeys)
					kb[0] = byte(200 + step%7)
					inWin.key = kb
				}
				point := "load.after_txn"
				if kind == "send" {
					point = "send.after_txn"
				}
				earlyPoint := "load.before_txn"
				if kind == "send" {
					earlyPoint = "send.before_txn"
				}
				verifhook.Set(func(instance, pt, detail string) {
					if pt == earlyPoint && !earlyFired && earlyKey != nil {
						// a commit after the step was called and before its transaction begins: this very step
						// detects it, so its stamp cannot lie before the commit
						earlyFired = true
						time.Sleep(2 * time.Millisecond)
						earlyBegin = uint64(time.Now().UnixNano())
						_, _ = lmdbx.Update(x.Env, func(txn *lmdb.Txn) error {
							return lmdbx.Put(txn, inWin.dbi, createFlags, earlyKey, []byte(earlyVal))
						})
						return
					}
					if pt != point || winFired {
						return
					}
					winFired = true
					_, _ = lmdbx.Update(x.Env, func(txn *lmdb.Txn) error {
						return lmdbx.Put(txn, inWin.dbi, createFlags, inWin.key, []byte(inWin.val))
					})
				})
			}
		}
		if inWin == nil {
			earlyKey = nil // the hook is only installed together with the in-step commit
		}
		var snap *wire.Snap
		if kind == "load-remote" {
			snap = &wire.Snap{FormatVersion: 3, CompatVersion: 1, Meta: wire.Meta{DatabaseName: "db", InstanceID: "r", GenerationID: "GX", TimestampNano: remoteTS}}
			nd := 1 + r.Intn(2)
			for di := 0; di < nd; di++ {
				name := rng.Pick(r, "d0", "d1", "d2", "d3", "rnew")
				if p.IntKeys > 0 && name == "rnew" {
					name = "rnewint"
				}
				dup := false
				for _, d := range snap.DBIs {
					if d.Name == name {
						dup = true
					}
				}
				if dup {
					continue
				}
				wd := wire.DBI{Name: name, Flags: uint64(createFlags)}
				ne := r.Intn(5)
				seen := map[string]bool{}
				for e := 0; e < ne; e++ {
					k := c11Key(r, p.IntKeys)
					if seen[string(k)] {
						continue
					}
					seen[string(k)] = true
					kv := wire.KV{Key: k}
					remoteTS += 1000
					kv.TS = remoteTS
					if p.Future && r.Chance(1, 2) {
						kv.TS = remoteTS + 1<<62 // year 2116: beats every capture stamp of this run
					}
					if r.Chance(1, 3) {
						kv.Flags = 1
						if r.Chance(1, 3) {
							// a native peer may leave bytes behind a deleted-flag header: still a deletion, the
							// bytes must never reach the application's DBI (seed C04j)
							kv.Val = []byte("leftover-behind-a-marker")
							res.Count("remote_markers_with_leftover_value", 1)
						}
					} else {
						kv.Val = []byte(c11Val(r, false) + "-remote")
					}
					wd.Entries = append(wd.Entries, kv)
				}
				sortEntries(wd.Entries, p.IntKeys > 0)
				snap.DBIs = append(snap.DBIs, wd)
			}
		}
		t0 := uint64(time.Now().UnixNano())
		var serr error
		switch kind {
		case "send":
			if p.Proto {
				// syncLoop: a snapshot is made only when LMDB's last transaction id is above the synced one
				if header.TxnID(lmdbx.LastTxnID(x.Env)) > lastSynced {
					var id header.TxnID
					_, id, serr = x.Send(ctx)
					if serr == nil {
						lastSynced = id
					}
					res.Count("protocol_sends", 1)
				} else {
					res.Count("protocol_sends_skipped_nothing_changed", 1)
				}
			} else {
				_, _, serr = x.Send(ctx)
			}
		default:
			ls := snap
			if kind == "load-empty" {
				ls = inst.EmptySnap("db", "r")
				if staleTomb {
					old := uint64(time.Now().Add(-48 * time.Hour).UnixNano())
					ls = &wire.Snap{FormatVersion: 3, CompatVersion: 1, Meta: wire.Meta{DatabaseName: "db", InstanceID: "r", GenerationID: "GX", TimestampNano: old},
						DBIs: []wire.DBI{{Name: dbiNames[0], Flags: uint64(createFlags), Entries: []wire.KV{{Key: absentKey(p.IntKeys, step), TS: old, Flags: 1}}}}}
					res.Count("stale_marker_only_loads", 1)
				}
			}
			if p.Proto {
				var id header.TxnID
				var changed bool
				id, changed, serr = x.LoadSnap(ctx, ls, "r", time.Now(), lastSynced)
				if serr == nil && !changed {
					lastSynced = id // syncLoop: no local change, the load's transaction counts as synced
				}
				if changed {
					res.Count("protocol_loads_with_local_change", 1)
				} else {
					res.Count("protocol_loads_without_local_change", 1)
				}
			} else {
				_, _, serr = x.LoadSnap(ctx, ls, "r", time.Now(), 0)
			}
		}
		verifhook.Set(nil)
		t1 := uint64(time.Now().UnixNano())
		steps++
		trace = append(trace, fmt.Sprintf("step %d: %d app changes, %s", step, len(chs), kind))
		wit := func() map[string]any {
			return map[string]any{"seed": p.Seed, "params": p, "trace": tailStr(trace, 12)}
		}
		if serr != nil {
			sig := "sync-step-error"
			if strings.Contains(serr.Error(), "not sorted") {
				sig = "valid-data-rejected-not-sorted"
			}
			res.Violate(sig, fmt.Sprintf("%s failed on valid application data: %v", kind, serr), wit())
			return
		}
		if p.Future {
			// With stamps from a peer whose clock is ahead, what the capture of a local change should do is not
			// defined by the statement (the documented premise of this mode is one clock). What it does say holds for
			// every remote snapshot: after a load step the application DBIs are exactly the live entries of the
			// timestamped state. No model is involved: both sides are read from the same dump.
			afterDump, _, _ := lmdbx.DumpEnv(x.Env)
			realShadow, err := inst.LogicalOf(afterDump, false)
			if err != nil {
				res.Violate("shadow-value-unreadable", err.Error(), wit())
				return
			}
			realApp, _ := inst.AppOf(afterDump, false)
			if kind == "send" || kind == "load-empty" {
				// One thing the statement does fix, whatever the stamps: a key the application deleted is a change
				// "captured as a new version"; after a capturing step without remote news the timestamped state
				// must not still hold it as a live entry (else the next load writes it back into the application's DBI).
				beforeShadow, _ := inst.LogicalOf(beforeDump, false)
				for _, ch := range chs {
					if _, still := m.main[ch.dbi][string(ch.key)]; still || !ch.del {
						continue
					}
					if inWin != nil && ch.dbi == inWin.dbi && (bytes.Equal(ch.key, inWin.key) || bytes.Equal(ch.key, earlyKey)) {
						continue
					}
					v, has := realShadow[ch.dbi][string(ch.key)]
					if !has {
						continue
					}
					if bv := beforeShadow[ch.dbi][string(ch.key)]; bv.TS >= 1<<62 && !bv.Del {
						res.Count("deletes_of_future_stamped_keys_checked", 1)
					}
					res.Count("future_family_deletes_checked", 1)
					if !v.Del {
						res.Violate("local-deletion-not-captured", fmt.Sprintf("after %s (step %d) the key %s[%x], which the application deleted before the step, is still a live entry %v of the timestamped state", kind, step, ch.dbi, ch.key, v), wit())
						return
					}
				}
			}
			if kind != "send" {
				live := map[string]map[string]string{}
				for d := range realApp {
					live[d] = map[string]string{}
				}
				for d, sh := range realShadow {
					if live[d] == nil {
						live[d] = map[string]string{}
					}
					for k, v := range sh {
						if !v.Del {
							live[d][k] = v.Val
						}
					}
				}
				if df := diffApp(realApp, live); df != "" {
					res.Violate("app-dbi-differs-from-merged-state", fmt.Sprintf("after %s (step %d) the application DBIs are not the live entries of the timestamped state (application vs live entries): %s", kind, step, df), wit())
					return
				}
				res.Count("future_stamp_projection_checks", 1)
			}
			// the generator of application changes keeps working from what is really there
			m.main = map[string]map[string]string{}
			for d, kv := range realApp {
				m.main[d] = map[string]string{}
				for k, v := range kv {
					m.main[d][k] = v
				}
			}
			for d := range m.main {
				if _, ok := m.flags[d]; !ok {
					m.flags[d] = afterDump[d].Flags
				}
			}
			res.Count("steps", 1)
			res.NonTrivial = true
			continue
		}
		if earlyFired {
			d := inWin.dbi
			if m.main[d] == nil {
				m.main[d] = map[string]string{}
				m.flags[d] = createFlags
			}
			m.main[d][string(earlyKey)] = earlyVal
			res.Count("commits_between_call_and_transaction", 1)
		}
		// ---- model step
		const nowPlaceholder = uint64(1) << 61 // between past remote stamps and future ones
		stamped := m.capture(nowPlaceholder)
		if kind != "send" {
			if snap != nil {
				m.merge(snap)
			}
			m.project()
		}
		if staleTomb {
			// the load may create the (empty) DBI named in the snapshot; the stale marker itself must not appear
			if _, ok := m.main[dbiNames[0]]; !ok {
				m.main[dbiNames[0]] = map[string]string{}
				m.flags[dbiNames[0]] = createFlags
			}
		}
		if inWin != nil && winFired {
			// committed after the step's transaction: the application DBI has it now, the timestamped state gets it
			// with the next step's capture
			if m.main[inWin.dbi] == nil {
				m.main[inWin.dbi] = map[string]string{}
				m.flags[inWin.dbi] = createFlags
			}
			m.main[inWin.dbi][string(inWin.key)] = inWin.val
			res.Count("commits_inside_a_step", 1)
			if staleTomb && len(chs) == 0 {
				res.Count("commits_inside_an_otherwise_empty_stale_marker_load", 1)
			}
		}
		// ---- observe
		afterDump, _, _ := lmdbx.DumpEnv(x.Env)
		lastAfter := lmdbx.LastTxnID(x.Env)
		realShadow, err := inst.LogicalOf(afterDump, false)
		if err != nil {
			res.Violate("shadow-value-unreadable", err.Error(), wit())
			return
		}
		// resolve the placeholder with the stamp the real code used
		var stamp uint64
		for _, sk := range stamped {
			parts := strings.SplitN(sk, "/", 2)
			mv := m.shadow[parts[0]][parts[1]]
			if mv.TS != nowPlaceholder {
				continue
			}
			rv, ok := realShadow[parts[0]][parts[1]]
			if !ok {
				continue
			}
			if rv.TS < t0 || rv.TS > t1 {
				// not a stamp of this step: leave the placeholder, the comparison below reports it
				continue
			}
			if stamp == 0 {
				stamp = rv.TS
			} else if rv.TS != stamp {
				res.Violate("capture-stamps-differ-within-step", fmt.Sprintf("entries captured in one step carry different stamps %d and %d", stamp, rv.TS), wit())
				return
			}
		}
		if stamp != 0 {
			for _, sh := range m.shadow {
				for k, v := range sh {
					if v.TS == nowPlaceholder {
						v.TS = stamp
						sh[k] = v
					}
				}
			}
		}
		if earlyFired {
			if rv, ok := realShadow[inWin.dbi][string(earlyKey)]; ok && !rv.Del && rv.Val == earlyVal && rv.TS < earlyBegin {
				res.Violate("capture-stamp-before-commit", fmt.Sprintf("after %s (step %d): %s[%x] was committed not before %d and detected by this step, but is stamped %d (%v earlier): a remote version written in between would win wrongly", kind, step, inWin.dbi, earlyKey, earlyBegin, rv.TS, time.Duration(earlyBegin-rv.TS)), wit())
				return
			}
		}
		res.Count("steps", 1)
		res.Count("steps_"+kind, 1)
		if len(stamped) > 0 || (snap != nil && len(snap.DBIs) > 0) {
			res.Count("steps_nontrivial", 1)
			res.NonTrivial = true
		}
		res.Count("captured_changes", int64(len(stamped)))
		// compare shadow
		modelShadow := inst.State{}
		for d, sh := range m.shadow {
			modelShadow[d] = sh
		}
		if df := inst.DiffState(realShadow, modelShadow); df != "" {
			sig := "shadow-differs-from-model"
			if p.Empty && onlyEmptyValueKeys(realShadow, modelShadow, m) {
				sig = "shadow-live-empty-value-removed"
			}
			res.Violate(sig, fmt.Sprintf("after %s (step %d) the shadow state differs from the model (real vs model): %s", kind, step, df), wit())
			return
		}
		// compare application DBIs
		realApp, _ := inst.AppOf(afterDump, false)
		if df := diffApp(realApp, m.main); df != "" {
			sig := "app-dbi-differs-from-model"
			if strings.Contains(df, `""`) && p.Empty {
				sig = "shadow-live-empty-value-removed"
			}
			res.Violate(sig, fmt.Sprintf("after %s (step %d) the application DBIs differ from the model (real vs model): %s", kind, step, df), wit())
			return
		}
		// flags of application and shadow DBIs
		for d, fl := range m.flags {
			if dd := afterDump[d]; dd != nil && dd.Flags != fl {
				res.Violate("app-dbi-flags", fmt.Sprintf("application DBI %s has flags %#x, expected %#x", d, dd.Flags, fl), wit())
			}
			if sd := afterDump[inst.ShadowPrefix+d]; sd != nil && sd.Flags != fl&0x08 {
				res.Violate("shadow-dbi-flags", fmt.Sprintf("shadow DBI of %s has flags %#x, expected %#x", d, sd.Flags, fl&0x08), wit())
			}
		}
		// write monitor (C14 clause): changed shadow values are well-formed and carry the writing transaction's id
		var lsTxn uint64
		for name, dd := range afterDump {
			if !strings.HasPrefix(name, inst.ShadowPrefix) {
				continue
			}
			old := map[string][]byte{}
			if od := beforeDump[name]; od != nil {
				for _, kv := range od.KVs {
					old[string(kv.K)] = kv.V
				}
			}
			for _, kv := range dd.KVs {
				if string(old[string(kv.K)]) == string(kv.V) {
					continue
				}
				h, _, err := hdr.WellFormedLS(kv.V, 0)
				if err != nil {
					res.Violate("written-header-malformed", fmt.Sprintf("shadow value written in step %d: %v", step, err), wit())
					continue
				}
				if h.NumExtra != 0 {
					res.Violate("written-header-extension-count", fmt.Sprintf("shadow value with %d extension blocks", h.NumExtra), wit())
				}
				if lsTxn == 0 {
					lsTxn = h.TxnID
				}
				if h.TxnID != lsTxn || int64(h.TxnID) <= lastBefore || int64(h.TxnID) > lastAfter {
					res.Violate("written-txnid-field", fmt.Sprintf("shadow value written in step %d carries txn id %d; LastTxnID before %d, after %d, other values of the step %d", step, h.TxnID, lastBefore, lastAfter, lsTxn), wit())
				}
				res.Count("written_values_checked", 1)
			}
		}
	}
	res.Sample = map[string]any{"case": c.ID, "params": p, "steps": steps, "trace_tail": tailStr(trace, 4)}
	return
}

func sortedKeys(m map[string]string) []string {
	var ks []string
	for k := range m {
		ks = append(ks, k)
	}
	sort.Strings(ks)
	return ks
}

func sortEntries(es []wire.KV, intKey bool) {
	sort.Slice(es, func(i, j int) bool {
		if intKey {
			return keyU(es[i].Key) < keyU(es[j].Key)
		}
		return string(es[i].Key) < string(es[j].Key)
	})
}

func keyU(b []byte) uint64 {
	if len(b) == 4 {
		return uint64(binary.LittleEndian.Uint32(b))
	}
	return binary.LittleEndian.Uint64(b)
}

func tailStr(s []string, n int) []string {
	if len(s) > n {
		return s[len(s)-n:]
	}
	return s
}

func diffApp(real inst.AppView, model map[string]map[string]string) string {
	var out []string
	names := map[string]bool{}
	for n := range real {
		names[n] = true
	}
	for n := range model {
		names[n] = true
	}
	for n := range names {
		x, okx := real[n]
		y, oky := model[n]
		if okx != oky {
			out = append(out, fmt.Sprintf("dbi %s exists real=%v model=%v", n, okx, oky))
			continue
		}
		keys := map[string]bool{}
		for k := range x {
			keys[k] = true
		}
		for k := range y {
			keys[k] = true
		}
		for k := range keys {
			vx, ox := x[k]
			vy, oy := y[k]
			if ox != oy || vx != vy {
				sx, sy := "absent", "absent"
				if ox {
					sx = fmt.Sprintf("%q", vx)
				}
				if oy {
					sy = fmt.Sprintf("%q", vy)
				}
				out = append(out, fmt.Sprintf("%s[%q]: %s vs %s", n, k, sx, sy))
			}
		}
	}
	sort.Strings(out)
	if len(out) > 5 {
		out = out[:5]
	}
	return strings.Join(out, "; ")
}

// onlyEmptyValueKeys: every differing key is one whose application value is a live empty value (the known
// finding): present in the application DBI with value "" or a live empty version in the model.
func onlyEmptyValueKeys(real, model inst.State, m *mirrorModel) bool {
	any := false
	check := func(d, k string) bool {
		mv, inModel := model[d][k]
		mainV, inMain := m.main[d][k]
		return (inMain && mainV == "") || (inModel && !mv.Del && mv.Val == "")
	}
	for d, sh := range model {
		for k, mv := range sh {
			if rv, ok := real[d][k]; ok && rv == mv {
				continue
			}
			any = true
			if !check(d, k) {
				return false
			}
		}
	}
	for d, sh := range real {
		for k := range sh {
			if _, ok := model[d][k]; !ok {
				any = true
				if !check(d, k) {
					return false
				}
			}
		}
	}
	return any
}
