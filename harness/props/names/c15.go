// Package names holds the monitor for C15: snapshot names round-trip and
// sort chronologically; foreign names are never taken for snapshots.
package names

import (
	"bytes"
	"context"
	"fmt"
	"regexp"
	"sort"
	"strings"
	"time"

	"github.com/PowerDNS/lmdb-go/lmdb"

	"github.com/PowerDNS/lightningstream/config"
	"github.com/PowerDNS/lightningstream/snapshot"
	"github.com/PowerDNS/lightningstream/syncer"
	"github.com/PowerDNS/lightningstream/syncer/cleaner"

	"verif/bucket"
	"verif/lmdbx"
	"verif/lsx"
	"verif/recvx"
	"verif/rng"
	"verif/runner"
	"verif/wire"
)

// otherKindExt is an extension registered with a non-snapshot kind by the receiver scenarios.
const otherKindExt = "verifdelta.gz"

type c15Params struct {
	Part  string `json:"part"` // roundtrip | order | parse | sanitise | receiver
	Seed  uint64 `json:"seed"`
	Count int    `json:"count"`
}

const safeAlphabet = "abcdefghijklmnopqrstuvwxyzABCDEFGHIJKLMNOPQRSTUVWXYZ0123456789-"

func safeName(r *rng.R, n int) string {
	b := make([]byte, n)
	for i := range b {
		b[i] = safeAlphabet[r.Intn(len(safeAlphabet))]
	}
	return string(b)
}

var maxTime = time.Unix(0, 1<<63-1).UTC() // 2262-04-11T23:47:16.854775807Z

// boundary timestamps: every digit rollover class
func boundaryTimes() []time.Time {
	var ts []time.Time
	add := func(t time.Time) {
		for _, d := range []time.Duration{0, -1, 1, -time.Second, time.Second} {
			u := t.Add(d)
			if u.UnixNano() >= 0 && !u.After(maxTime) && u.Year() >= 1970 {
				ts = append(ts, u.UTC())
			}
		}
	}
	add(time.Unix(0, 0))
	add(maxTime)
	for _, y := range []int{1970, 1971, 1999, 2000, 2024, 2038, 2100, 2261} {
		add(time.Date(y, 1, 1, 0, 0, 0, 0, time.UTC))
		add(time.Date(y, 2, 28, 23, 59, 59, 999999999, time.UTC))
		add(time.Date(y, 3, 1, 0, 0, 0, 0, time.UTC))
		add(time.Date(y, 9, 30, 23, 59, 59, 999999999, time.UTC))
		add(time.Date(y, 10, 1, 0, 0, 0, 0, time.UTC))
		add(time.Date(y, 12, 31, 23, 59, 59, 999999999, time.UTC))
		add(time.Date(y, 6, 15, 9, 59, 59, 999999999, time.UTC))
		add(time.Date(y, 6, 15, 10, 0, 0, 0, time.UTC))
		add(time.Date(y, 6, 9, 23, 59, 59, 0, time.UTC))
		add(time.Date(y, 6, 10, 0, 0, 0, 0, time.UTC))
		add(time.Date(y, 6, 15, 12, 9, 59, 999999999, time.UTC))
		add(time.Date(y, 6, 15, 12, 10, 0, 0, time.UTC))
		add(time.Date(y, 6, 15, 12, 30, 9, 999999999, time.UTC))
		add(time.Date(y, 6, 15, 12, 30, 10, 0, time.UTC))
		for _, ns := range []int{9, 10, 99, 100, 999, 1000, 99999, 100000, 999999, 1000000, 99999999, 100000000, 999999999} {
			add(time.Date(y, 6, 15, 12, 30, 30, ns, time.UTC))
		}
	}
	add(time.Date(2024, 2, 29, 12, 0, 0, 0, time.UTC)) // leap day
	add(time.Date(2000, 2, 29, 23, 59, 59, 999999999, time.UTC))
	return ts
}

// zones: the instant must be encoded, whatever location the time.Time carries
var zones = []*time.Location{time.UTC, time.FixedZone("CET", 3600), time.FixedZone("CEST", 7200), time.FixedZone("W", -8*3600), time.FixedZone("odd", 5*3600+45*60)}

func C15() *runner.Property {
	return &runner.Property{
		ID:    "C15",
		Level: "exploration",
		Rule: "roundtrip: generated NameInfo (database/instance over the safe alphabet, lengths 1-64, generation ids, 0-3 extra items, timestamps from every digit-rollover boundary class 1970..2262 +-{0,1ns,1s} and random, carried in UTC and non-UTC locations) -> BuildName -> ParseName must return the same components and instant; " +
			"order: names of one database/instance sorted by bytes must equal the list sorted by time; parse: arbitrary strings and mutations of valid names (incl. one replaced byte inside the timestamp field) must not panic, and whatever ParseName accepts must be exactly the name built from the parsed components and instant (names <-> component tuples one to one); sanitise: syncer.New with arbitrary instance strings -> the name of a real SendOnce blob parses and its instance component is over [A-Za-z0-9-] and equals the blob's metadata; " +
			"receiver: buckets with databases db, db-2, db2, dbx, plain files and malformed names -> a real Receiver for db delivers only db's snapshots, the newest per instance; cleaner: a real cleaner.Worker for database main in a bucket shared with main-2, main2, mai, main--, MAIN (same instances, newer snapshots) issues no Delete outside main__* and the same Deletes as in a bucket without them. Non-trivial = distinct names (roundtrip), pairs with distinct timestamps (order), distinct inputs (others).",
		Assumptions: []string{"timestamps 1970-01-01 .. 2262-04-11 (int64 nanoseconds)"},
		BatchSize:   4,
		CaseTimeout: 120e9,
		Cases: func(tier string, seed int64) []runner.Case {
			r := rng.New(uint64(seed) ^ 0xC15)
			k := 3
			if tier == "thorough" {
				k = 200
			}
			var cs []runner.Case
			for i := 0; i < 4*k; i++ {
				cs = append(cs, runner.MkCase("roundtrip", fmt.Sprint(i), c15Params{Part: "roundtrip", Seed: r.U64(), Count: 20000}))
				cs = append(cs, runner.MkCase("order", fmt.Sprint(i), c15Params{Part: "order", Seed: r.U64(), Count: 30000}))
				cs = append(cs, runner.MkCase("parse", fmt.Sprint(i), c15Params{Part: "parse", Seed: r.U64(), Count: 40000}))
			}
			for i := 0; i < 2*k; i++ {
				cs = append(cs, runner.MkCase("sanitise", fmt.Sprint(i), c15Params{Part: "sanitise", Seed: r.U64(), Count: 40}))
				cs = append(cs, runner.MkCase("receiver", fmt.Sprint(i), c15Params{Part: "receiver", Seed: r.U64(), Count: 6}))
				cs = append(cs, runner.MkCase("cleaner", fmt.Sprint(i), c15Params{Part: "cleaner", Seed: r.U64(), Count: 40}))
			}
			return cs
		},
		Run: runC15,
	}
}

func genTime(r *rng.R, bt []time.Time) time.Time {
	var t time.Time
	if r.Bool() {
		t = bt[r.Intn(len(bt))]
	} else {
		t = time.Unix(0, int64(r.U64()>>1)).UTC()
	}
	return t.In(zones[r.Intn(len(zones))])
}

func genExtra(r *rng.R) snapshot.NameExtra {
	var ex snapshot.NameExtra
	letters := "ABCDEFHIJKLMNOPQRSTUVWXYZ" // no G
	n := r.Intn(4)
	start := r.Intn(len(letters) - 4)
	for i := 0; i < n; i++ {
		ex = append(ex, snapshot.NameExtraItem(string(letters[start+i])+safeName(r, r.Intn(6))))
	}
	return ex
}

func runC15(c runner.Case, env *runner.Env) (res runner.Result) {
	var p c15Params
	runner.Params(c, &p)
	res.Key = c.ID
	r := rng.New(p.Seed)
	bt := boundaryTimes()
	switch p.Part {
	case "roundtrip":
		distinct := map[string]bool{}
		for i := 0; i < p.Count; i++ {
			ni := snapshot.NameInfo{Kind: snapshot.KindSnapshot, Extension: snapshot.DefaultExtension,
				SyncerName: safeName(r, 1+r.Intn(64)), InstanceID: safeName(r, 1+r.Intn(64)), GenerationID: "G" + safeName(r, r.Intn(5)),
				Timestamp: genTime(r, bt), Extra: genExtra(r)}
			name := ni.BuildName()
			distinct[name] = true
			wit := map[string]any{"name": name, "timestamp": ni.Timestamp.Format(time.RFC3339Nano), "unixnano": ni.Timestamp.UnixNano()}
			got, err := snapshot.ParseName(name)
			if err != nil {
				res.Violate("built-name-unparsable", fmt.Sprintf("ParseName(BuildName(x)) failed: %v (%s)", err, name), wit)
				continue
			}
			if got.SyncerName != ni.SyncerName || got.InstanceID != ni.InstanceID || got.GenerationID != ni.GenerationID || got.Kind != snapshot.KindSnapshot || got.Extension != ni.Extension {
				res.Violate("roundtrip-component", fmt.Sprintf("components differ after round trip: %+v vs %+v", got, ni), wit)
			}
			if !got.Timestamp.Equal(ni.Timestamp) {
				res.Violate("roundtrip-timestamp", fmt.Sprintf("timestamp %s (location %s) round-trips to %s", ni.Timestamp.Format(time.RFC3339Nano), ni.Timestamp.Location(), got.Timestamp.Format(time.RFC3339Nano)), wit)
			}
			if len(got.Extra) != len(ni.Extra) {
				res.Violate("roundtrip-extra", fmt.Sprintf("extra items %v round-trip to %v", ni.Extra, got.Extra), wit)
			} else {
				for j := range got.Extra {
					if got.Extra[j] != ni.Extra[j] {
						res.Violate("roundtrip-extra", fmt.Sprintf("extra items %v round-trip to %v", ni.Extra, got.Extra), wit)
					}
				}
			}
			if got.BuildName() != name {
				res.Violate("rebuild-differs", fmt.Sprintf("BuildName(ParseName(n)) = %s, n = %s", got.BuildName(), name), wit)
			}
			// the helper used by the syncer
			if n2 := snapshot.Name(ni.SyncerName, ni.InstanceID, ni.GenerationID, ni.Timestamp); len(ni.Extra) == 0 && n2 != name {
				res.Violate("name-helper-differs", fmt.Sprintf("snapshot.Name gives %s, BuildName %s", n2, name), wit)
			}
		}
		res.Count("names", int64(p.Count))
		res.Count("distinct_names", int64(len(distinct)))
		res.NonTrivial = len(distinct) > 1
		res.Sample = map[string]any{"case": c.ID, "names": p.Count, "distinct": len(distinct)}
	case "order":
		db, inst := safeName(r, 1+r.Intn(20)), safeName(r, 1+r.Intn(20))
		type nt struct {
			name string
			t    time.Time
		}
		var list []nt
		// dense neighbourhoods + boundary + random
		for i := 0; i < p.Count; i++ {
			t := genTime(r, bt)
			if i%3 == 0 && len(list) > 0 {
				t = list[r.Intn(len(list))].t.Add(time.Duration(rng.Pick(r, 1, -1, 2, 10, 999, 1000, 1000000, 1000000000, 60000000000)))
				if t.UnixNano() < 0 || t.After(maxTime) || t.Year() < 1970 {
					continue
				}
				t = t.In(zones[r.Intn(len(zones))])
			}
			list = append(list, nt{snapshot.Name(db, inst, "GX", t), t})
		}
		byName := append([]nt{}, list...)
		sort.SliceStable(byName, func(i, j int) bool { return byName[i].name < byName[j].name })
		pairs := 0
		for i := 1; i < len(byName); i++ {
			a, b := byName[i-1], byName[i]
			if a.t.Equal(b.t) {
				if a.name != b.name {
					res.Violate("same-instant-different-names", fmt.Sprintf("one instant, two names: %s (%s) and %s (%s)", a.name, a.t.Location(), b.name, b.t.Location()), nil)
				}
				continue
			}
			pairs++
			if a.t.After(b.t) {
				res.Violate("order-not-chronological", fmt.Sprintf("%s sorts before %s but is later (%s vs %s)", a.name, b.name, a.t.UTC().Format(time.RFC3339Nano), b.t.UTC().Format(time.RFC3339Nano)),
					map[string]any{"a": a.name, "b": b.name, "ta": a.t.UnixNano(), "tb": b.t.UnixNano()})
				break
			}
			if a.name == b.name {
				res.Violate("distinct-instants-same-name", fmt.Sprintf("two instants share the name %s (%d vs %d)", a.name, a.t.UnixNano(), b.t.UnixNano()), nil)
				break
			}
		}
		res.Count("ordered_pairs_with_distinct_timestamps", int64(pairs))
		res.NonTrivial = pairs > 1
		res.Sample = map[string]any{"case": c.ID, "names": len(list), "adjacent_pairs": pairs, "first": byName[0].name, "last": byName[len(byName)-1].name}
	case "parse":
		ok := 0
		for i := 0; i < p.Count; i++ {
			var s string
			switch r.Intn(4) {
			case 0:
				s = string(r.Bytes(r.Intn(80)))
			case 1: // separators and dots
				parts := []string{"db", "__", "i", "__", "20240501-100000-000000000", "__", "GX", "__", "X1", ".", "pb.gz", "_", "", "-", "pb", "gz", "tmp"}
				n := r.Intn(14)
				for k := 0; k < n; k++ {
					s += parts[r.Intn(len(parts))]
				}
			default: // mutation of a valid name
				b := []byte(snapshot.Name("db", "inst", "GX", genTime(r, bt)))
				if r.Bool() {
					b = []byte(snapshot.NameInfo{SyncerName: "db", InstanceID: "i", GenerationID: "GX", Timestamp: genTime(r, bt), Extension: "pb.gz", Extra: genExtra(r)}.BuildName())
				}
				if r.Chance(1, 6) {
					// dotted text in front of the extension or inside a field (backup copies, temp names)
					ins := rng.Pick(r, ".bak", ".tmp", ".pb.gz", ".old", ".1", ".")
					pos := bytes.LastIndex(b, []byte(".pb.gz"))
					if r.Bool() || pos < 0 {
						pos = r.Intn(len(b))
					}
					b = append(b[:pos], append([]byte(ins), b[pos:]...)...)
					s = string(b)
					goto parse
				}
				if r.Chance(1, 4) {
					// exactly one byte of the timestamp field replaced (separators, digits, anything)
					at := bytes.Index(b, []byte("__2")) // "__" + first digit of the year
					if at > 0 {
						pos := at + 2 + r.Intn(25)
						if pos < len(b) {
							b[pos] = rng.Pick(r, byte('_'), '.', '-', '0', '9', 'x', ',', ':', ' ', '/')
						}
					}
					s = string(b)
					goto parse
				}
				for k := 0; k < 1+r.Intn(3); k++ {
					pos := r.Intn(len(b))
					switch r.Intn(5) {
					case 0:
						b[pos] = rng.Pick(r, byte('_'), '.', '-', '0', '9', 'x', 0, 0xff)
					case 1:
						b = append(b[:pos], b[pos+1:]...)
					case 2:
						b = append(b[:pos+1], b[pos:]...)
					case 3:
						b = append(b[:pos], append([]byte("__"), b[pos:]...)...)
					case 4:
						b = b[:pos]
					}
					if len(b) == 0 {
						break
					}
				}
				s = string(b)
			}
		parse:
			func() {
				defer func() {
					if e := recover(); e != nil {
						res.Violate("parsename-panic", fmt.Sprintf("ParseName(%q) panicked: %v", s, e), map[string]any{"input": s})
					}
				}()
				ni, err := snapshot.ParseName(s)
				if err == nil {
					ok++
					_ = ni.ShortHash()
					_ = ni.Extra.String()
					// names and component tuples correspond one to one: whatever is accepted as a snapshot name is
					// exactly the name built from its components (otherwise two distinct names share one tuple and
					// byte order no longer follows the parsed timestamps)
					// everything after the FIRST dot is the extension and only "pb.gz" is registered: stray files such as
					// ...GX.bak.pb.gz, ...GX.pb.gz.tmp, db.old__... are not snapshots
					if i := strings.Index(s, "."); i < 0 || (s[i+1:] != "pb.gz" && s[i+1:] != otherKindExt) {
						res.Violate("non-snapshot-file-accepted", fmt.Sprintf("ParseName accepted %q, whose extension (everything after the first dot) is not a registered one", s), map[string]any{"input": s})
					}
					canon := ni
					canon.TimestampString = "" // build the timestamp field from the parsed instant, not from the input text
					if rb := canon.BuildName(); rb != s {
						res.Violate("accepted-name-not-canonical", fmt.Sprintf("ParseName accepted %q but its components build %q", s, rb), map[string]any{"input": s})
					}
				}
			}()
		}
		res.Count("strings_parsed", int64(p.Count))
		res.Count("accepted", int64(ok))
		res.NonTrivial = true
		res.Sample = map[string]any{"case": c.ID, "strings": p.Count, "accepted": ok}
	case "sanitise":
		lsx.Quiet()
		reSafe := regexp.MustCompile(`^[A-Za-z0-9-]+$`)
		for i := 0; i < p.Count; i++ {
			var inst string
			switch r.Intn(6) {
			case 0:
				inst = string(r.Bytes(1 + r.Intn(20)))
			case 1:
				inst = rng.Pick(r, "edge_", "_x", "eu__node__1", "a.b.c", "host.example.com", "a b", "ünï", "x__y", "__", ".", "a_", "a/b", "日本", "pb.gz", "i.pb.gz")
			case 2:
				inst = safeName(r, 1+r.Intn(10)) + rng.Pick(r, "_", "__", ".", " ", "\x00", "é") + safeName(r, r.Intn(5))
			default:
				al := "ab1-_. /\\:é\x00"
				b := make([]byte, 1+r.Intn(12))
				for k := range b {
					b[k] = al[r.Intn(len(al))]
				}
				inst = string(b)
			}
			dir := env.Dir("san")
			e, err := lmdbx.Open(dir, 16<<20)
			if err != nil {
				res.Verdict, res.Msg = runner.Inconclusive, err.Error()
				return
			}
			_, _ = lmdbx.Update(e, func(txn *lmdb.Txn) error { return lmdbx.Put(txn, "d", 0, []byte("k"), []byte("v")) })
			b := bucket.New()
			conf := lsx.FastConfig(inst)
			if i%2 == 1 {
				// no instance configured: the name comes from the host name (dots, underscores... are common there)
				conf.Instance = ""
				old := syncer.VerifSetHostname(inst)
				defer syncer.VerifSetHostname(old)
				res.Count("instances_from_hostname", 1)
			}
			s, err := syncer.New("db", e, b, conf, config.LMDB{SchemaTracksChanges: false}, syncer.Options{})
			if err != nil {
				e.Close()
				res.Violate("syncer-new-error", fmt.Sprintf("syncer.New with instance %q: %v", inst, err), map[string]any{"instance": inst})
				continue
			}
			_, err = s.SendOnce(context.Background(), e)
			e.Close()
			if err != nil {
				res.Violate("sendonce-error", fmt.Sprintf("SendOnce with instance %q: %v", inst, err), map[string]any{"instance": inst})
				continue
			}
			names := b.Names()
			res.Count("instances_tried", 1)
			wit := map[string]any{"instance": inst, "names": names}
			if len(names) != 1 {
				res.Violate("sendonce-blobs", fmt.Sprintf("instance %q: %d blobs stored", inst, len(names)), wit)
				continue
			}
			ni, err := snapshot.ParseName(names[0])
			if err != nil {
				res.Violate("sanitised-name-unparsable", fmt.Sprintf("instance %q gives blob name %q which does not parse: %v", inst, names[0], err), wit)
				continue
			}
			if !reSafe.MatchString(ni.InstanceID) {
				res.Violate("sanitised-instance-unsafe", fmt.Sprintf("instance %q sanitised to %q, outside [A-Za-z0-9-]", inst, ni.InstanceID), wit)
			}
			if ni.SyncerName != "db" {
				res.Violate("sanitised-name-shifted", fmt.Sprintf("instance %q: database component parsed as %q", inst, ni.SyncerName), wit)
			}
			data, _ := b.Get(names[0])
			ws, err := wire.DecodeBlob(data)
			if err != nil {
				res.Violate("blob-undecodable", err.Error(), wit)
				continue
			}
			if ws.Meta.InstanceID != ni.InstanceID || ws.Meta.DatabaseName != "db" {
				res.Violate("name-metadata-disagree", fmt.Sprintf("name says instance %q db %q, metadata instance %q db %q", ni.InstanceID, ni.SyncerName, ws.Meta.InstanceID, ws.Meta.DatabaseName), wit)
			}
			if uint64(ni.Timestamp.UnixNano()) != ws.Meta.TimestampNano {
				res.Violate("name-metadata-time-disagree", fmt.Sprintf("name timestamp %d, metadata %d", ni.Timestamp.UnixNano(), ws.Meta.TimestampNano), wit)
			}
			res.Add("sanitised_examples", fmt.Sprintf("%q->%q", inst, ni.InstanceID))
		}
		res.NonTrivial = true
		res.Sample = map[string]any{"case": c.ID, "instances": p.Count}
	case "cleaner":
		// The real cleaner of database "main" works in a bucket shared with databases whose names extend or shorten it
		// (main-2, main2, mai, main--, MAIN), same instance names, newer snapshots. It must never delete anything that is
		// not main__*, and what it deletes of main__* must be what it deletes when the other databases are not there.
		lsx.Quiet()
		base := time.Date(2025, 3, 1, 12, 0, 0, 0, time.UTC)
		for i := 0; i < p.Count; i++ {
			keep := rng.Pick(r, time.Duration(0), time.Second, time.Hour)
			stale := rng.Pick(r, time.Duration(0), 24*time.Hour, 30*24*time.Hour)
			conf := config.Cleanup{Enabled: true, Interval: time.Hour, MustKeepInterval: keep, RemoveOldInstancesInterval: stale}
			shared, alone := bucket.New(), bucket.New()
			insts := []string{"host1", "host2", "h"}[:1+r.Intn(3)]
			var own []string
			for _, in := range insts {
				t := base
				for k := 0; k < 1+r.Intn(4); k++ {
					t = t.Add(time.Duration(1+r.Intn(100000)) * time.Millisecond)
					if r.Bool() {
						// several snapshots within one wall-clock second: only the sub-second digits order them
						t = t.Truncate(time.Second).Add(time.Duration(1+k*100+r.Intn(90)) * time.Millisecond)
					}
					n := snapshot.Name("main", in, "GX", t)
					own = append(own, n)
					shared.Put(n, []byte("s"))
					alone.Put(n, []byte("s"))
				}
				for _, other := range []string{"main-2", "main2", "mai", "main--", "MAIN", "main-main"} {
					if r.Chance(2, 3) {
						for k := 0; k < 1+r.Intn(3); k++ {
							// newer than everything of main, or in between
							ot := t.Add(time.Duration(r.Intn(200000)-50000) * time.Millisecond)
							shared.Put(snapshot.Name(other, in, "GX", ot), []byte("o"))
						}
					}
				}
			}
			ws, wa := cleaner.New("main", shared, conf, lsx.NullLogger()), cleaner.New("main", alone, conf, lsx.NullLogger())
			now := base.Add(300 * time.Second)
			for run := 0; run < 3; run++ {
				_ = ws.RunOnce(context.Background(), now)
				_ = wa.RunOnce(context.Background(), now)
				now = now.Add(keep + rng.Pick(r, time.Nanosecond, time.Second, 40*24*time.Hour))
			}
			var delShared, delAlone []string
			for _, e := range shared.Log() {
				if e.Op == "Delete" {
					if !strings.HasPrefix(e.Name, "main__") {
						res.Violate("cleaner-deleted-other-database", fmt.Sprintf("the cleaner of database main deleted %s", e.Name), map[string]any{"bucket": shared.Names(), "keep": keep.String(), "stale": stale.String()})
					} else {
						delShared = append(delShared, e.Name)
					}
				}
			}
			for _, e := range alone.Log() {
				if e.Op == "Delete" {
					delAlone = append(delAlone, e.Name)
				}
			}
			// the last name of an instance in byte order is its newest snapshot: nothing was ever reported as merged
			// (SetCommitted), so no policy allows deleting it
			newestOf := map[string]string{}
			for _, n := range own {
				if ni, err := snapshot.ParseName(n); err == nil && n > newestOf[ni.InstanceID] {
					newestOf[ni.InstanceID] = n
				}
			}
			for _, n := range delAlone {
				if ni, err := snapshot.ParseName(n); err == nil && newestOf[ni.InstanceID] == n {
					res.Violate("cleaner-deleted-the-last-name-of-an-instance", fmt.Sprintf("the cleaner deleted %s, the byte-wise last (= newest) snapshot name of instance %s; kept: %v", n, ni.InstanceID, alone.Names()), map[string]any{"own": own, "keep": keep.String(), "stale": stale.String()})
				}
			}
			sort.Strings(delShared)
			sort.Strings(delAlone)
			if fmt.Sprint(delShared) != fmt.Sprint(delAlone) {
				res.Violate("cleaner-influenced-by-other-database", fmt.Sprintf("with other databases in the bucket the cleaner of main deleted %v, without them %v", delShared, delAlone), map[string]any{"own": own, "keep": keep.String(), "stale": stale.String()})
			}
			res.Count("cleaner_scenarios", 1)
			res.Count("cleaner_deletes_observed", int64(len(delAlone)))
			if len(delAlone) > 0 {
				res.NonTrivial = true
			}
		}
		res.Sample = map[string]any{"case": c.ID, "scenarios": p.Count}
	case "receiver":
		// a second extension is registered with a kind that is not "snapshot" (as an extended build does for deltas):
		// such files parse, but are never snapshots
		snapshot.RegisterExtension(otherKindExt, "verif-delta")
		for i := 0; i < p.Count; i++ {
			db := "db"
			sc := recvx.Scenario{DB: db, Own: "self", DLimit: 2, ZLimit: 3, Consumer: "fast", Bound: 1500}
			ni := 1 + r.Intn(3)
			for k := 0; k < ni; k++ {
				is := recvx.InstSpec{Name: fmt.Sprintf("i%d", k)}
				for j := 0; j < 1+r.Intn(3); j++ {
					is.Blobs = append(is.Blobs, recvx.BlobSpec{Kind: "valid"})
				}
				sc.Insts = append(sc.Insts, is)
			}
			ts := "20300101-000000-000000000" // newer than everything of db
			for _, other := range []string{"db-2", "db2", "dbx", "d", "db-", "DB"} {
				sc.Foreign = append(sc.Foreign, other+"__i0__"+ts+"__GX.pb.gz", other+"__zz__"+ts+"__GX.pb.gz")
			}
			sc.Foreign = append(sc.Foreign, "db", "db__", "db__x", "db__i0__"+ts+".pb.gz", "db__i0__"+ts+"__GX.tmp", "db__i0__"+ts+"__GX", "db__i0__2030__GX.pb.gz",
				"db__i0__"+ts+"__GX.pb.gz.tmp", "db__i0__20300101-000000.000000000__GX.pb.gz", "README", "db__i0__"+ts[:24]+"__GX.pb.gz", "db.pb.gz", "db__i0__99999999-999999-999999999__GX.pb.gz",
				// a stray byte where the seconds/nanoseconds separator belongs: sorts after every real name of that second
				"db__i0__"+ts+"__GX."+otherKindExt, "db__i1__"+ts+"__GX."+otherKindExt, "db__onlydelta__"+ts+"__GX."+otherKindExt,
				"db__i0__"+ts+"__GX.bak.pb.gz", "db__i0__"+ts+"__GX.pb.gz.pb.gz", "db__i0.1__"+ts+"__GX.pb.gz", "db__i0__"+ts+"__GX.tmp.pb.gz",
				"db__i0__20300101-000000_000000000__GX.pb.gz", "db__i0__20300101-000000x000000000__GX.pb.gz", "db__i0__20300101-0000000000000000__GX.pb.gz", "db__i0__20300101_000000-000000000__GX.pb.gz")
			rng.Shuffle(r, sc.Foreign)
			out := recvx.Run(sc, nil, 40*time.Second)
			res.Count("receiver_scenarios", 1)
			res.Count("deliveries", int64(len(out.Deliveries)))
			res.Count("decoy_names", int64(len(sc.Foreign)))
			if out.Inconclusive != "" {
				res.Verdict, res.Msg = runner.Inconclusive, out.Inconclusive
				return
			}
			for _, f := range out.Violations {
				res.Violate(f.Sig, f.Msg, map[string]any{"scenario": sc, "deliveries": out.Deliveries})
			}
			for _, d := range out.Deliveries {
				if !strings.HasPrefix(d.Name, "db__") {
					res.Violate("foreign-name-delivered", "delivered "+d.Name, nil)
				}
				for _, fn := range sc.Foreign {
					if d.Name == fn {
						res.Violate("decoy-name-delivered", "the receiver delivered "+d.Name+", which is not a snapshot name of this database", nil)
					}
				}
			}
		}
		res.NonTrivial = true
		res.Sample = map[string]any{"case": c.ID, "scenarios": p.Count}
	}
	return
}
