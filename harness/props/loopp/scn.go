// Package loopp holds the forced-schedule monitors on the real sync loop:
// C03 (a committed application write is never destroyed), C09 (every
// committed change gets published) and C05 (published data is never lost
// from the bucket).
package loopp

import (
	"fmt"
	"sort"
	"strings"
	"sync/atomic"
	"time"

	"github.com/PowerDNS/lmdb-go/lmdb"

	"github.com/PowerDNS/lightningstream/snapshot"

	"github.com/PowerDNS/lightningstream/config"

	"verif/bucket"
	"verif/inst"
	"verif/lmdbx"
	"verif/lsx"
	"verif/runner"
	"verif/sched"
	"verif/wire"
)

// Points are the yield points of the loop at which an application commit is forced.
var Points = []string{
	"loop.top", "loop.before_info", "loop.after_info", "loop.end",
	"load.before_txn", "load.after_txn", "load.done",
	"send.before_txn", "send.after_txn", "send.before_store", "send.after_store",
}

var Kinds = []string{"insert", "overwrite", "delete", "newdbi", "rewrite-same"}

// ExtraKinds are change kinds outside the base enumeration: "empty-dbi" deletes the last key of a DBI.
var ExtraKinds = []string{"empty-dbi"}

type Scn struct {
	Native     bool   `json:"native"`
	Point      string `json:"point"`
	Nth        int    `json:"nth"`
	Kind       string `json:"kind"`
	Remote     string `json:"remote"`   // none | nonews | news
	Prewrite   bool   `json:"prewrite"` // another application commit just before arming (makes the loop upload)
	EmptyVal   bool   `json:"emptyval,omitempty"`
	StoreFails int    `json:"store_fails,omitempty"`
	Extra      []Inj  `json:"extra,omitempty"` // further injections (random multi-injection schedules)
	Padding    bool   `json:"padding,omitempty"`
	// AfterLoad: the main arm is only armed once the staged remote snapshot was merged (load.done)
	AfterLoad bool `json:"after_load,omitempty"`
	// LoadCapture: the earlier application commit is made at loop.top while the staged remote snapshot is
	// already downloaded and waiting, so that LoadOnce itself captures it (shadow) and the following SendOnce is empty
	LoadCapture bool `json:"load_capture,omitempty"`
	// Sweeper: the tomb sweeper is enabled in the configuration (it never runs: first interval 1 h), which turns on
	// the stale-deletion cutoff of merges; Remote "staletomb" then stages a snapshot whose only content is a deletion
	// marker older than the retention for a key the instance does not have: the merge transaction stays empty
	Sweeper bool `json:"sweeper,omitempty"`
	// ReceiveOnly: the instance runs in receive-only mode (never uploads). Only the "local writes are not destroyed"
	// clause applies; any Store or Delete it issues is reported.
	ReceiveOnly bool `json:"receive_only,omitempty"`
	// AtStartup: the injection is armed before Sync is started, so that the start-up phases and the very first
	// SendOnce (initial snapshot of an instance with data and an empty bucket) are covered
	AtStartup bool `json:"at_startup,omitempty"`
}

type Inj struct {
	Point string `json:"point"`
	Nth   int    `json:"nth"`
	Kind  string `json:"kind"`
}

func (s Scn) ID() string {
	m := "shadow"
	if s.Native {
		m = "native"
	}
	id := fmt.Sprintf("%s-%s#%d-%s-r%s", m, s.Point, s.Nth, s.Kind, s.Remote)
	if s.Prewrite {
		id += "-pre"
	}
	if s.ReceiveOnly {
		id += "-recvonly"
	}
	if s.AtStartup {
		id += "-atstartup"
	}
	if s.EmptyVal {
		id += "-empty"
	}
	if s.StoreFails > 0 {
		id += fmt.Sprintf("-sf%d", s.StoreFails)
	}
	if s.Padding {
		id += "-pad"
	}
	if s.AfterLoad {
		id += "-afterload"
	}
	if s.LoadCapture {
		id += "-loadcapture"
	}
	if s.Sweeper {
		id += "-sweeper"
	}
	for _, e := range s.Extra {
		id += fmt.Sprintf("+%s#%d-%s", e.Point, e.Nth, e.Kind)
	}
	return id
}

const dbName = "db"

// appWrite is one committed application write (the harness is the application).
type appWrite struct {
	DBI   string
	Key   string
	Val   string
	Del   bool
	TS    uint64 // native: the timestamp the application wrote
	TxnID int64
	Kind  string
	At    string
}

type world struct {
	scn       Scn
	b         *bucket.B
	a         *inst.Inst
	s         *sched.Sched
	loop      *sched.Loop
	writes    []appWrite
	staged    []string
	rseq      int
	ts0Staged int
	res       *runner.Result
}

// commit performs an application transaction of the given kind.
func (w *world) commit(kind, at string, seq int) {
	native := w.scn.Native
	val := fmt.Sprintf("v-%s-%d", kind, seq)
	if w.scn.EmptyVal {
		val = ""
	}
	aw := appWrite{DBI: "d", Kind: kind, At: at}
	switch kind {
	case "insert":
		aw.Key = fmt.Sprintf("w-ins-%d", seq)
		aw.Val = val
	case "overwrite":
		aw.Key, aw.Val = "victim", val
	case "delete":
		aw.Key, aw.Del = "victim2", true
	case "newdbi":
		aw.DBI, aw.Key, aw.Val = fmt.Sprintf("dnew%d", seq), "first", val
	case "rewrite-same":
		aw.Key, aw.Val = "same", "same-value"
	case "empty-dbi":
		aw.DBI, aw.Key, aw.Del = "solo", "only-key", true
	}
	w.s.Note(w.a.Name, "APP BEGIN "+kind+" at "+at)
	id, err := lmdbx.Update(w.a.Env, func(txn *lmdb.Txn) error {
		if native {
			aw.TS = uint64(time.Now().UnixNano())
			return inst.NativePut(txn, aw.DBI, []byte(aw.Key), aw.TS, aw.Del, []byte(aw.Val))
		}
		if aw.Del {
			return lmdbx.Del(txn, aw.DBI, []byte(aw.Key))
		}
		return lmdbx.Put(txn, aw.DBI, 0, []byte(aw.Key), []byte(aw.Val))
	})
	if err != nil {
		w.res.Verdict, w.res.Msg = runner.Inconclusive, "application commit failed: "+err.Error()
		return
	}
	aw.TxnID = id
	w.writes = append(w.writes, aw)
	w.s.Note(w.a.Name, fmt.Sprintf("APP COMMIT txn %d: %s %s[%s] at %s", id, kind, aw.DBI, aw.Key, at))
}

// stageRemote puts a snapshot of instance "r" into the bucket.
func (w *world) stageRemote(news bool) string { return w.stageRemoteKind(news, false) }

func (w *world) stageRemoteKind(news, staleTomb bool) string {
	w.rseq++
	ts := time.Now()
	old := uint64(978307200000000000) + uint64(w.rseq) // 2001: cannot win against anything written now
	s := &wire.Snap{FormatVersion: 3, CompatVersion: 1, Meta: wire.Meta{DatabaseName: dbName, InstanceID: "r", GenerationID: "GX", TimestampNano: uint64(ts.UnixNano())}}
	d := wire.DBI{Name: "d"}
	// "no news": only a version of an existing key that cannot win. In shadow mode
	// the start-up capture stamps existing data with 1 ns, so every real
	// timestamp would win there: the no-news snapshot then has no entries at all.
	if w.scn.Native {
		d.Entries = append(d.Entries, wire.KV{Key: []byte("base1"), Val: []byte("stale-remote-value"), TS: 978307200000000000})
	}
	if w.rseq%2 == 1 {
		// versions without a timestamp (field absent = 0) of keys that exist here since before the syncer started
		// and that the application overwrites / deletes: they can never win, in either mode
		ks := []string{"victim", "same"}
		if w.scn.Native {
			// (shadow mode: a deletion made before the first capture leaves no marker - documented start-up behaviour -
			// so any remote version of victim2 is legitimately new there)
			ks = append(ks, "victim2")
		}
		for _, k := range ks {
			d.Entries = append(d.Entries, wire.KV{Key: []byte(k), Val: []byte("remote-without-timestamp"), TS: 0})
		}
		w.ts0Staged++
	}
	if news {
		d.Entries = append(d.Entries, wire.KV{Key: []byte(fmt.Sprintf("rnew-%03d", w.rseq)), Val: []byte("remote"), TS: old})
	}
	if staleTomb {
		// only a deletion marker from 2001 for a key nobody here has (retention 1 day)
		d.Entries = []wire.KV{{Key: []byte(fmt.Sprintf("gone-%03d", w.rseq)), TS: old, Flags: 1}}
	}
	sort.Slice(d.Entries, func(i, j int) bool { return string(d.Entries[i].Key) < string(d.Entries[j].Key) })
	s.DBIs = []wire.DBI{d}
	name := snapshot.Name(dbName, "r", "GX", ts)
	w.b.Put(name, wire.Gzip(wire.EncodeSnapshot(s)))
	w.staged = append(w.staged, name)
	w.s.Note("r", "STAGE "+name+fmt.Sprintf(" news=%v", news))
	return name
}

func (w *world) stageStaleMarkersForLocalWrites() {
	w.rseq++
	ts := time.Now()
	old := uint64(time.Now().Add(-48*time.Hour).UnixNano()) + uint64(w.rseq)
	s := &wire.Snap{FormatVersion: 3, CompatVersion: 1, Meta: wire.Meta{DatabaseName: dbName, InstanceID: "r", GenerationID: "GX", TimestampNano: uint64(ts.UnixNano())}}
	byDBI := map[string][]wire.KV{}
	for _, aw := range w.lastWrites() {
		if !aw.Del {
			byDBI[aw.DBI] = append(byDBI[aw.DBI], wire.KV{Key: []byte(aw.Key), TS: old, Flags: 1})
		}
	}
	var names []string
	for n := range byDBI {
		names = append(names, n)
	}
	sort.Strings(names)
	for _, n := range names {
		es := byDBI[n]
		sort.Slice(es, func(i, j int) bool { return string(es[i].Key) < string(es[j].Key) })
		s.DBIs = append(s.DBIs, wire.DBI{Name: n, Entries: es})
	}
	name := snapshot.Name(dbName, "r", "GX", ts)
	w.b.Put(name, wire.Gzip(wire.EncodeSnapshot(s)))
	w.staged = append(w.staged, name)
	w.s.Note("r", "STAGE "+name+" stale markers for local writes")
}

// newestOwn decodes the newest blob of instance a.
func (w *world) newestOwn() (*wire.Snap, string) {
	var newest string
	for _, n := range w.b.Names() {
		if strings.HasPrefix(n, dbName+"__"+w.a.Name+"__") && n > newest {
			newest = n
		}
	}
	if newest == "" {
		return nil, ""
	}
	data, _ := w.b.Get(newest)
	s, err := wire.DecodeBlob(data)
	if err != nil {
		return nil, newest
	}
	return s, newest
}

// last write per (dbi,key)
func (w *world) lastWrites() map[string]appWrite {
	m := map[string]appWrite{}
	for _, aw := range w.writes {
		m[aw.DBI+"\x00"+aw.Key] = aw
	}
	return m
}

func (w *world) witness(extra string) map[string]any {
	return map[string]any{"scenario": w.scn, "detail": extra, "app_writes": w.writes, "events_tail": w.s.Tail(70)}
}

// checkC03: everything the application committed is still there.
func (w *world) checkC03(when string) {
	av, err := w.a.App()
	if err != nil {
		w.res.Violate("app-dbi-unreadable", err.Error(), w.witness(when))
		return
	}
	for _, aw := range w.lastWrites() {
		got, present := av[aw.DBI][aw.Key]
		w.res.Count("c03_keys_checked", 1)
		mode := "shadow"
		if w.scn.Native {
			mode = "native"
		}
		switch {
		case aw.Del && present:
			w.res.Violate("write-destroyed:"+mode+"@"+aw.At, fmt.Sprintf("%s: the application deleted %s[%s] (txn %d at %s) but it is visible again with value %q", when, aw.DBI, aw.Key, aw.TxnID, aw.At, got), w.witness(when))
		case !aw.Del && !present:
			sig := "write-destroyed:" + mode + "@" + aw.At
			if aw.Val == "" && !w.scn.Native {
				sig = "shadow-live-empty-value-removed"
			}
			w.res.Violate(sig, fmt.Sprintf("%s: the application committed %s[%s]=%q (txn %d at %s, %s) and it is gone", when, aw.DBI, aw.Key, aw.Val, aw.TxnID, aw.At, aw.Kind), w.witness(when))
		case !aw.Del && got != aw.Val:
			w.res.Violate("write-destroyed:"+mode+"@"+aw.At, fmt.Sprintf("%s: the application committed %s[%s]=%q (txn %d at %s) and it now reads %q", when, aw.DBI, aw.Key, aw.Val, aw.TxnID, aw.At, got), w.witness(when))
		}
	}
}

// checkC09: the newest own snapshot reflects every committed write.
func (w *world) checkC09(when string) {
	snap, name := w.newestOwn()
	mode := "shadow"
	if w.scn.Native {
		mode = "native"
	}
	if snap == nil {
		w.res.Violate("no-own-snapshot:"+mode, fmt.Sprintf("%s: the loop is idle but instance %s has no decodable snapshot in the bucket (%q)", when, w.a.Name, name), w.witness(when))
		return
	}
	st := inst.StateOfSnap(snap)
	for _, aw := range w.lastWrites() {
		w.res.Count("c09_keys_checked", 1)
		v, ok := st[aw.DBI][aw.Key]
		sig := "commit-not-published:" + mode + "@" + aw.At
		if aw.Val == "" && !aw.Del && !w.scn.Native {
			sig = "shadow-live-empty-value-removed"
		}
		desc := fmt.Sprintf("%s: the loop is idle, the application committed %s %s[%s] in txn %d at %s, but the newest own snapshot %s ", when, aw.Kind, aw.DBI, aw.Key, aw.TxnID, aw.At, name)
		switch {
		case !ok && aw.Del && !w.scn.Native && !w.everPublished(aw.DBI, aw.Key):
			// the key was deleted before any snapshot of this instance carried it (first start): there is nothing
			// to publish, no other instance can have it from here
			w.res.Count("deletions_of_never_published_keys", 1)
		case !ok:
			w.res.Violate(sig, desc+"does not contain the key", w.witness(when))
		case w.scn.Native:
			if v.TS < aw.TS || (v.TS == aw.TS && (v.Del != aw.Del || (!aw.Del && v.Val != aw.Val))) {
				w.res.Violate(sig, desc+fmt.Sprintf("has %v, older than the written (%d,del=%v,%q)", v, aw.TS, aw.Del, aw.Val), w.witness(when))
			}
		default:
			if v.Del != aw.Del || (!aw.Del && v.Val != aw.Val) {
				w.res.Violate(sig, desc+fmt.Sprintf("has %v instead of the written (del=%v,%q)", v, aw.Del, aw.Val), w.witness(when))
			}
		}
	}
}

// everPublished: some snapshot of instance a in the bucket carries the key (live or as a marker).
func (w *world) everPublished(dbi, key string) bool {
	for _, n := range w.b.Names() {
		if !strings.HasPrefix(n, dbName+"__"+w.a.Name+"__") {
			continue
		}
		data, _ := w.b.Get(n)
		s, err := wire.DecodeBlob(data)
		if err != nil {
			continue
		}
		if _, ok := inst.StateOfSnap(s)[dbi][key]; ok {
			return true
		}
	}
	return false
}

// run executes a scenario; which selects the oracles: "C03", "C09" or both.
func RunScn(scn Scn, env *runner.Env, res *runner.Result, which string) {
	w := &world{scn: scn, b: bucket.New(), s: sched.New(), res: res}
	defer w.s.Close()
	opt := inst.Opt{Native: scn.Native, Padding: scn.Padding}
	if scn.Sweeper {
		conf := lsx.FastConfig("a")
		conf.Sweeper = config.Sweeper{Enabled: true, RetentionDays: 1, Interval: time.Hour, FirstInterval: time.Hour, LockDuration: time.Second, ReleaseDuration: time.Second}
		opt.Conf = &conf
	}
	opt.Options.ReceiveOnly = scn.ReceiveOnly
	a, err := inst.New(env.Dir("loop"), w.b, dbName, "a", opt)
	if err != nil {
		res.Verdict, res.Msg = runner.Inconclusive, err.Error()
		return
	}
	defer a.Close()
	w.a = a
	// initial application data (committed before the syncer starts)
	_, err = lmdbx.Update(a.Env, func(txn *lmdb.Txn) error {
		for _, kv := range [][2]string{{"base1", "b1"}, {"victim", "old"}, {"victim2", "old2"}, {"same", "same-value"}, {"predel", "to-be-deleted"}} {
			var err error
			if scn.Native {
				err = inst.NativePut(txn, "d", []byte(kv[0]), uint64(time.Now().UnixNano()), false, []byte(kv[1]))
			} else {
				err = lmdbx.Put(txn, "d", 0, []byte(kv[0]), []byte(kv[1]))
			}
			if err != nil {
				return err
			}
		}
		// a DBI with a single key (change kind "empty-dbi" deletes it)
		if scn.Native {
			return inst.NativePut(txn, "solo", []byte("only-key"), uint64(time.Now().UnixNano()), false, []byte("v"))
		}
		return lmdbx.Put(txn, "solo", 0, []byte("only-key"), []byte("v"))
	})
	if err != nil {
		res.Verdict, res.Msg = runner.Inconclusive, err.Error()
		return
	}
	var storeFailsLeft int32
	w.b.SetHook(func(op, name string, nth int) bucket.Decision {
		if op == "Store" && atomic.LoadInt32(&storeFailsLeft) > 0 {
			atomic.AddInt32(&storeFailsLeft, -1)
			return bucket.Decision{Err: bucket.ErrInjected}
		}
		return bucket.Decision{}
	})
	const wd = 15 * time.Second
	arms := []*sched.Arm{}
	seq := 0
	if scn.AtStartup {
		// the commit lands inside the start-up of a first run (data, empty bucket)
		n := 1
		seq = 1
		arms = append(arms, w.s.ArmAt("a", scn.Point, scn.Nth, func(ev sched.Event) { w.commit(scn.Kind, scn.Point+"(start-up)", n) }))
	}
	w.loop = sched.Start(a, w.s)
	defer w.loop.Stop(5 * time.Second)
	if ok, why := w.loop.WaitQuiescent(nil, 3, wd); !ok {
		if err, crashed, fin := w.loop.Result(); fin {
			res.Violate("sync-ended", fmt.Sprintf("Sync ended during start-up (err=%v, crashed=%v)", err, crashed), w.witness("startup"))
			return
		}
		res.Verdict, res.Msg = runner.Inconclusive, "start-up did not reach quiescence: "+why
		return
	}
	if s0, _ := w.newestOwn(); s0 == nil && !scn.ReceiveOnly {
		res.Violate("no-startup-snapshot", "an instance started with data and an empty bucket is idle without having uploaded a snapshot", w.witness("startup"))
		return
	}
	if !scn.AtStartup {
		// an ordinary earlier deletion: from here on the timestamped state holds a deletion marker (a strategy meets
		// it on every later capture)
		aw := appWrite{DBI: "d", Kind: "delete", At: "after start-up", Key: "predel", Del: true}
		w.s.Note(a.Name, "APP BEGIN delete predel")
		id, _ := lmdbx.Update(a.Env, func(txn *lmdb.Txn) error {
			if scn.Native {
				aw.TS = uint64(time.Now().UnixNano())
				return inst.NativePut(txn, "d", []byte("predel"), aw.TS, true, nil)
			}
			return lmdbx.Del(txn, "d", []byte("predel"))
		})
		aw.TxnID = id
		w.writes = append(w.writes, aw)
		w.s.Note(a.Name, fmt.Sprintf("APP COMMIT txn %d: delete d[predel]", id))
		if ok, why := w.loop.WaitQuiescent(nil, 3, wd); !ok {
			res.Verdict, res.Msg = runner.Inconclusive, "no quiescence after the preparatory deletion: "+why
			return
		}
	}
	if scn.AtStartup {
		if !w.s.Fired(arms[0]) {
			res.Count("point_not_reached", 1)
			return
		}
		res.NonTrivial = true
		res.Add("points_fired", scn.Point+"(start-up)")
		if which != "C03" && which != "C10" {
			w.checkC09("first idle state after the start-up commit")
		}
		if which != "C09" && which != "C10" {
			w.checkC03("first idle state after the start-up commit")
		}
		w.stageRemote(true)
		if ok, why := w.loop.WaitQuiescent(w.staged, 3, wd); !ok {
			if err, crashed, fin := w.loop.Result(); fin {
				res.Violate("sync-ended", fmt.Sprintf("Sync ended (err=%v, crashed=%v)", err, crashed), w.witness("after follow-up"))
				return
			}
			res.Verdict, res.Msg = runner.Inconclusive, "no quiescence after the follow-up snapshot: "+why
			return
		}
		if which != "C09" && which != "C10" {
			w.checkC03("after a following remote snapshot was merged")
		}
		if which != "C03" && which != "C10" {
			w.checkC09("after a following remote snapshot was merged")
		}
		if which == "C10" {
			CheckCausalityOf(w.s.Events(), w.a.Name, w.res, w.witness("upload causality"))
		}
		return
	}
	// ---- the forced schedule
	mkArm := func(point string, nth int, kind string) {
		seq++
		n := seq
		arms = append(arms, w.s.ArmAt("a", point, nth, func(ev sched.Event) {
			w.commit(kind, point, n)
			if scn.Remote == "staletomb-local" && n == 1 {
				// a remote snapshot whose deletion markers for the keys just written are older than the retention:
				// stale or not, they are older than the local versions and must not remove them
				w.stageStaleMarkersForLocalWrites()
			}
		}))
	}
	mainArmed := make(chan struct{})
	armMain := func() {
		mkArm(scn.Point, scn.Nth, scn.Kind)
		for _, e := range scn.Extra {
			mkArm(e.Point, e.Nth, e.Kind)
		}
		close(mainArmed)
	}
	atomic.StoreInt32(&storeFailsLeft, int32(scn.StoreFails))
	var stagedName string
	switch {
	case scn.LoadCapture:
		// stage first, then commit W1 at loop.top once the blob has been downloaded
		stagedName = w.stageRemoteKind(scn.Remote == "news", scn.Remote == "staletomb")
		w.s.ArmAt("a", "loop.top", 1, func(ev sched.Event) {
			dl := time.Now().Add(2 * time.Second)
			for time.Now().Before(dl) {
				got := false
				for _, e := range w.b.Log() {
					if e.Op == "Load" && e.Name == stagedName && e.Err == "" {
						got = true
					}
				}
				if got {
					break
				}
				time.Sleep(200 * time.Microsecond)
			}
			time.Sleep(3 * time.Millisecond) // decompress + hand-over to the receiver's queue
			armMain()
			seq++
			w.commit("insert", "loop.top(before load)", 1000+seq)
		})
	case scn.AfterLoad && scn.Remote != "none":
		stagedName = w.stageRemoteKind(scn.Remote == "news", scn.Remote == "staletomb")
		w.s.ArmAt("a", "load.done", 1, func(ev sched.Event) { armMain() })
		if scn.Prewrite {
			seq++
			w.commit("insert", "prewrite", 1000+seq)
		}
	default:
		armMain()
		if scn.Prewrite {
			seq++
			w.commit("insert", "prewrite", 1000+seq)
		}
		switch scn.Remote {
		case "nonews":
			w.stageRemote(false)
		case "news":
			w.stageRemote(true)
		case "staletomb":
			w.stageRemoteKind(false, true)
		}
	}
	select {
	case <-mainArmed:
	case <-time.After(wd):
		res.Count("point_not_reached", 1)
		return
	}
	// wait for the main arm to fire (bounded in loop iterations, not wall-clock)
	from := w.s.Len()
	deadline := time.Now().Add(wd)
	for !w.s.Fired(arms[0]) && w.s.Count("a", "loop.end", from) < 200 && time.Now().Before(deadline) {
		time.Sleep(200 * time.Microsecond)
	}
	if !w.s.Fired(arms[0]) {
		// the point does not occur in this context: not a case of this family
		res.Count("point_not_reached", 1)
		res.Add("unreached", scn.Point+"/"+scn.Remote+fmt.Sprintf("/pre=%v", scn.Prewrite))
		return
	}
	if ok, why := w.loop.WaitQuiescent(w.staged, 3, wd); !ok {
		if err, crashed, fin := w.loop.Result(); fin {
			res.Violate("sync-ended", fmt.Sprintf("Sync ended (err=%v, crashed=%v) instead of publishing", err, crashed), w.witness("after injection"))
			return
		}
		res.Verdict, res.Msg = runner.Inconclusive, "no quiescence after the injection: "+why
		return
	}
	res.NonTrivial = true
	res.Add("points_fired", scn.Point)
	res.Add("interleavings", interleavingHash(w.s.Events()))
	if scn.ReceiveOnly {
		which = "C03"
		if n := w.b.Count("Store") + w.b.Count("Delete"); n > 0 {
			res.Violate("receive-only-instance-wrote-to-storage", fmt.Sprintf("a receive-only instance issued %d Store/Delete calls", n), w.witness("receive-only"))
		}
	}
	if which != "C03" && which != "C10" {
		w.checkC09("first idle state after the commit")
	}
	if which != "C09" && which != "C10" {
		w.checkC03("first idle state after the commit")
	}
	// follow-up: another remote snapshot is merged afterwards
	w.stageRemote(true)
	if ok, why := w.loop.WaitQuiescent(w.staged, 3, wd); !ok {
		if err, crashed, fin := w.loop.Result(); fin {
			res.Violate("sync-ended", fmt.Sprintf("Sync ended (err=%v, crashed=%v)", err, crashed), w.witness("after follow-up"))
			return
		}
		res.Verdict, res.Msg = runner.Inconclusive, "no quiescence after the follow-up snapshot: "+why
		return
	}
	if which != "C09" && which != "C10" {
		w.checkC03("after a following remote snapshot was merged")
	}
	if which != "C03" && which != "C10" {
		w.checkC09("idle again after a following remote snapshot was merged")
	}
	if which == "C10" {
		w.CheckCausality()
	}
	res.Count("scenarios_completed", 1)
	res.Count("remote_snapshots_with_timestampless_versions", int64(w.ts0Staged))
	if res.Sample == nil {
		res.Sample = map[string]any{"scenario": scn, "app_writes": w.writes, "events": w.s.Len(), "stores": w.b.SuccessfulCount("Store"), "event_trace_tail": w.s.Tail(30)}
	}
}

// interleavingHash: the cross-actor order of yields, commits and stagings.
func interleavingHash(evs []sched.Event) string {
	var sb strings.Builder
	for _, e := range evs {
		if e.Point == "harness" {
			sb.WriteString("H:" + firstWord(e.Note) + ";")
		} else if e.Point != "loop.top" && e.Point != "loop.before_info" && e.Point != "loop.after_info" && e.Point != "loop.end" {
			sb.WriteString(e.Point + ";")
		}
	}
	return runner.HashOf(sb.String())
}

func firstWord(s string) string {
	if i := strings.Index(s, " "); i > 0 {
		return s[:i]
	}
	return s
}

// CheckCausality is the upload-causality monitor (C10): an upload of the
// instance is unexplained - an echo - if it is not the first since Sync
// started and no application commit completed between the start of the
// previous upload's transaction and the end of this upload's transaction.
func (w *world) CheckCausality() {
	CheckCausalityOf(w.s.Events(), w.a.Name, w.res, w.witness("upload causality"))
}

func CheckCausalityOf(evs []sched.Event, name string, res *runner.Result, wit map[string]any) {
	// application commits as intervals [begin, end] of event indexes: the harness notes
	// "APP BEGIN" before the transaction and "APP COMMIT" after it, so a commit that the
	// loop noticed before the harness goroutine got to write its second note still counts
	type iv struct{ b, e int }
	var commits []iv
	// commits of different goroutines (the harness's own writer and a commit made from a yield point) can overlap:
	// BEGIN notes are queued and each COMMIT note closes the oldest open one. The intervals so formed cover exactly
	// the same stretch of the log as the true ones (every interval starts at a true begin and ends at a true end).
	var open []int
	for i, e := range evs {
		if e.Inst != name || e.Point != "harness" {
			continue
		}
		if strings.HasPrefix(e.Note, "APP BEGIN") {
			open = append(open, i)
		} else if strings.HasPrefix(e.Note, "APP COMMIT") {
			b := i
			if len(open) > 0 {
				b, open = open[0], open[1:]
			}
			commits = append(commits, iv{b, i})
		}
	}
	for _, b := range open {
		commits = append(commits, iv{b, len(evs)})
	}
	prevBefore := -1 // index of send.before_txn of the previous upload
	curBefore := -1
	curAfter := -1
	uploads := 0
	for i, e := range evs {
		if e.Inst != name {
			continue
		}
		switch e.Point {
		case "send.before_txn":
			curBefore = i
		case "send.after_txn":
			curAfter = i
		case "send.after_store":
			uploads++
			res.Count("uploads_observed", 1)
			if uploads > 1 {
				explained := false
				for _, c := range commits {
					if c.b <= curAfter && c.e >= prevBefore {
						explained = true
					}
				}
				if explained {
					res.Count("uploads_explained_by_app_commit", 1)
				} else {
					res.Violate("echo-upload", fmt.Sprintf("instance %s uploaded %s although no application commit happened since its previous upload started (events #%d..#%d)", name, e.Detail, prevBefore, curAfter), wit)
				}
			}
			prevBefore = curBefore
		}
	}
}
