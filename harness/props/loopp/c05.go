package loopp

import (
	"context"
	"fmt"
	"sort"
	"strings"
	"sync"
	"sync/atomic"
	"time"

	"github.com/PowerDNS/lmdb-go/lmdb"

	"github.com/PowerDNS/lightningstream/config"
	"github.com/PowerDNS/lightningstream/snapshot"

	"verif/bucket"
	"verif/inst"
	"verif/lmdbx"
	"verif/lsx"
	"verif/rng"
	"verif/runner"
	"verif/sched"
	"verif/wire"
)

// ---------------------------------------------------------------- online conservation monitor

// ConsMon recomputes, inside the bucket's critical section after every
// successful Store/Delete, the join J over the newest snapshot of every
// instance and asserts that no key lost its version or moved to a lower
// timestamp.
type ConsMon struct {
	DB        string
	cache     map[string]inst.State
	prev      map[string]inst.Ver
	Mutations int
	Checks    int
	Viol      []string
	KeysMax   int
	// Stores per instance in order, for the ordering clause
	StoreSeq []string
}

func NewConsMon(db string) *ConsMon {
	return &ConsMon{DB: db, cache: map[string]inst.State{}, prev: map[string]inst.Ver{}}
}

func (m *ConsMon) OnMutation(b *bucket.B, ev bucket.Event) {
	m.Mutations++
	if ev.Op == "Store" {
		m.StoreSeq = append(m.StoreSeq, ev.Name)
	}
	newest := map[string]string{}
	for _, n := range b.NamesLocked() {
		ni, err := snapshot.ParseName(n)
		if err != nil || ni.SyncerName != m.DB || ni.Kind != snapshot.KindSnapshot {
			continue
		}
		if n > newest[ni.InstanceID] {
			newest[ni.InstanceID] = n
		}
	}
	J := map[string]inst.Ver{}
	for _, n := range newest {
		st, ok := m.cache[n]
		if !ok {
			ws, err := wire.DecodeBlob(b.GetLocked(n))
			if err != nil {
				continue
			}
			st = inst.StateOfSnap(ws)
			m.cache[n] = st
		}
		for d, kv := range st {
			for k, v := range kv {
				id := d + "\x00" + k
				if old, ok := J[id]; !ok || v.TS > old.TS {
					J[id] = v
				}
			}
		}
	}
	for id, v := range m.prev {
		nv, ok := J[id]
		m.Checks++
		if !ok || nv.TS < v.TS {
			parts := strings.SplitN(id, "\x00", 2)
			now := "absent"
			if ok {
				now = nv.String()
			}
			if len(m.Viol) < 5 {
				m.Viol = append(m.Viol, fmt.Sprintf("after %s %s: key %s[%s] had %s in the newest snapshots, now %s", ev.Op, ev.Name, parts[0], parts[1], v, now))
			}
		}
	}
	if len(J) > m.KeysMax {
		m.KeysMax = len(J)
	}
	m.prev = J
}

// ---------------------------------------------------------------- F1: crash / restart

type RestartScn struct {
	Native     bool   `json:"native"`
	CrashPoint string `json:"crash_point"`
	CrashNth   int    `json:"crash_nth"`
	Emptied    bool   `json:"emptied"`    // restart with an emptied LMDB
	WithB      bool   `json:"with_b"`     // a second instance runs concurrently
	GateIters  int    `json:"gate_iters"` // loop iterations the download of the own old snapshot is held back
	WriteAt    string `json:"write_at"`   // when the application writes after the restart: before-start | startup.listed | startup.before_first_send | loop.top | none
	LoadFails  int    `json:"load_fails"` // the first k Loads of the own old snapshot fail
	// CheckWrites: judge the application's commits made while the syncer was down / starting (C03: still in the LMDB,
	// C09: in the newest own snapshot once the loop is idle) instead of the conservation clauses
	CheckWrites bool `json:"check_writes,omitempty"`
}

func (s RestartScn) ID() string {
	m := "shadow"
	if s.Native {
		m = "native"
	}
	return fmt.Sprintf("%s-crash@%s#%d-emptied=%v-B=%v-gate%d-write@%s-lf%d", m, s.CrashPoint, s.CrashNth, s.Emptied, s.WithB, s.GateIters, s.WriteAt, s.LoadFails)
}

var CrashPoints = append([]string{"startup.listed", "startup.before_first_send"}, Points...)

func AppPut(x *inst.Inst, s *sched.Sched, key, val string) {
	s.Note(x.Name, "APP BEGIN "+key)
	id, _ := lmdbx.Update(x.Env, func(txn *lmdb.Txn) error {
		if x.Opt.Native {
			return inst.NativePut(txn, "d", []byte(key), uint64(time.Now().UnixNano()), false, []byte(val))
		}
		return lmdbx.Put(txn, "d", 0, []byte(key), []byte(val))
	})
	s.Note(x.Name, fmt.Sprintf("APP COMMIT txn %d: %s=%s", id, key, val))
}

func RunRestart(scn RestartScn, env *runner.Env, res *runner.Result) {
	b := bucket.New()
	mon := NewConsMon(dbName)
	b.OnMutation = mon.OnMutation
	s := sched.New()
	defer s.Close()
	wit := func(extra string) map[string]any {
		return map[string]any{"scenario": scn, "detail": extra, "events_tail": s.Tail(80), "stores": mon.StoreSeq}
	}
	dirA := env.Dir("c05a")
	a, err := inst.New(dirA, b, dbName, "a", inst.Opt{Native: scn.Native})
	if err != nil {
		res.Verdict, res.Msg = runner.Inconclusive, err.Error()
		return
	}
	defer func() { a.Close() }()
	for i := 0; i < 4; i++ {
		AppPut(a, s, fmt.Sprintf("a-key-%d", i), "v0")
	}
	var bInst *inst.Inst
	var bLoop *sched.Loop
	if scn.WithB {
		bInst, err = inst.New(env.Dir("c05b"), b, dbName, "b", inst.Opt{Native: scn.Native})
		if err != nil {
			res.Verdict, res.Msg = runner.Inconclusive, err.Error()
			return
		}
		defer bInst.Close()
		AppPut(bInst, s, "b-key", "vb")
		bLoop = sched.Start(bInst, s)
		defer bLoop.Stop(5 * time.Second)
	}
	const wd = 15 * time.Second
	loopA := sched.Start(a, s)
	if ok, why := loopA.WaitQuiescent(nil, 3, wd); !ok {
		loopA.Stop(5 * time.Second)
		res.Verdict, res.Msg = runner.Inconclusive, "A start-up: "+why
		return
	}
	// some history
	AppPut(a, s, "a-key-1", "v1")
	AppPut(a, s, "a-late", "v1")
	if ok, why := loopA.WaitQuiescent(nil, 3, wd); !ok {
		loopA.Stop(5 * time.Second)
		res.Verdict, res.Msg = runner.Inconclusive, "A phase 1: "+why
		return
	}
	// ---- crash at the armed point; activity that reaches it
	arm := s.ArmAt("a", scn.CrashPoint, scn.CrashNth, sched.Crash)
	if !scn.CheckWrites {
		AppPut(a, s, "a-key-2", "v2-before-crash")
	}
	// (with CheckWrites the instance crashes while idle and fully synced: after the restart the merge of its own
	// snapshot then changes nothing, which is when LMDB hands that transaction's id to the application)
	// a remote snapshot so that load.* points are reached
	rs := &wire.Snap{FormatVersion: 3, CompatVersion: 1, Meta: wire.Meta{DatabaseName: dbName, InstanceID: "r", GenerationID: "GX", TimestampNano: uint64(time.Now().UnixNano())},
		DBIs: []wire.DBI{{Name: "d", Entries: []wire.KV{{Key: []byte("r-key"), Val: []byte("vr"), TS: uint64(time.Now().UnixNano())}}}}}
	if !scn.CheckWrites {
		b.Put(snapshot.Name(dbName, "r", "GX", time.Now()), wire.Gzip(wire.EncodeSnapshot(rs)))
	}
	crashed := false
	from := s.Len()
	dl := time.Now().Add(wd)
	for time.Now().Before(dl) && s.Count("a", "loop.end", from) < 200 {
		if _, c, fin := loopA.Result(); fin {
			crashed = c
			break
		}
		time.Sleep(200 * time.Microsecond)
	}
	if !crashed {
		loopA.Stop(5 * time.Second)
		if !s.Fired(arm) {
			res.Count("point_not_reached", 1)
			return
		}
		res.Verdict, res.Msg = runner.Inconclusive, "crash point fired but the loop did not end"
		return
	}
	s.Note("a", "CRASHED at "+scn.CrashPoint)
	res.Add("crash_points_fired", scn.CrashPoint)
	// ---- restart
	ownNewest := ""
	for _, n := range b.Names() {
		if strings.HasPrefix(n, dbName+"__a__") && n > ownNewest {
			ownNewest = n
		}
	}
	if scn.Emptied {
		a.Close()
		a, err = inst.New(env.Dir("c05a-new"), b, dbName, "a", inst.Opt{Native: scn.Native})
		if err != nil {
			res.Verdict, res.Msg = runner.Inconclusive, err.Error()
			return
		}
	} else if err := a.NewSyncer(); err != nil {
		res.Verdict, res.Msg = runner.Inconclusive, err.Error()
		return
	}
	// hold back / fail the download of the own old snapshot
	var gateOpen int32
	var loadFailsLeft = int32(scn.LoadFails)
	incFrom := s.Len()
	b.SetHook(func(op, name string, nth int) bucket.Decision {
		if op == "Load" && name == ownNewest && ownNewest != "" {
			for atomic.LoadInt32(&gateOpen) == 0 && s.Count("a", "loop.end", incFrom) < scn.GateIters {
				time.Sleep(200 * time.Microsecond)
			}
			if atomic.AddInt32(&loadFailsLeft, -1) >= 0 {
				return bucket.Decision{Err: bucket.ErrInjected}
			}
		}
		return bucket.Decision{}
	})
	defer atomic.StoreInt32(&gateOpen, 1)
	wrote := false
	doWrite := func() {
		if scn.CheckWrites {
			// one transaction: a transaction id handed out twice is only visible when exactly one commit follows
			s.Note(a.Name, "APP BEGIN restart-writes")
			id, _ := lmdbx.Update(a.Env, func(txn *lmdb.Txn) error {
				for _, kv := range [][2]string{{"a-after-restart", "new"}, {"a-key-0", "after-restart"}} {
					var err error
					if a.Opt.Native {
						err = inst.NativePut(txn, "d", []byte(kv[0]), uint64(time.Now().UnixNano()), false, []byte(kv[1]))
					} else {
						err = lmdbx.Put(txn, "d", 0, []byte(kv[0]), []byte(kv[1]))
					}
					if err != nil {
						return err
					}
				}
				return nil
			})
			s.Note(a.Name, fmt.Sprintf("APP COMMIT txn %d: restart-writes", id))
			wrote = true
			return
		}
		AppPut(a, s, "a-after-restart", "new")
		AppPut(a, s, "a-key-0", "after-restart")
		wrote = true
	}
	switch scn.WriteAt {
	case "before-start":
		doWrite()
	case "none":
	default:
		s.ArmAt("a", scn.WriteAt, 1, func(ev sched.Event) { doWrite() })
	}
	storesBefore := len(mon.StoreSeq)
	s.Note("a", "RESTART")
	loop2 := sched.Start(a, s)
	defer loop2.Stop(5 * time.Second)
	var staged []string
	if ownNewest != "" {
		staged = append(staged, ownNewest)
	}
	if ok, why := loop2.WaitQuiescent(staged, 4, wd); !ok {
		if err, c, fin := loop2.Result(); fin {
			res.Violate("sync-ended-after-restart", fmt.Sprintf("Sync ended after the restart (err=%v crashed=%v)", err, c), wit(""))
			return
		}
		if ownNewest != "" && !s.Loaded("a", ownNewest, incFrom) && s.Count("a", "loop.end", incFrom) > 500 && atomic.LoadInt32(&loadFailsLeft) < 0 {
			// the loop has been iterating for a long time (logical clock), the download was let through, and the
			// instance's own newest snapshot was still never merged: whatever it uploads meanwhile lacks that data
			res.Violate("own-snapshot-not-merged-after-restart", fmt.Sprintf("%d loop iterations after the restart instance a has still not merged its own newest snapshot %s", s.Count("a", "loop.end", incFrom), ownNewest), wit("restart"))
			for _, v := range mon.Viol {
				res.Violate("published-data-lost", v, wit("conservation monitor"))
			}
			return
		}
		res.Verdict, res.Msg = runner.Inconclusive, "after restart: "+why
		return
	}
	if scn.CheckWrites {
		res.Count("restart_scenarios", 1)
		if !wrote {
			res.Count("write_point_not_reached", 1)
			return
		}
		want := map[string]string{"a-after-restart": "new", "a-key-0": "after-restart"}
		av, _ := a.App()
		for k, v := range want {
			if got, ok := av["d"][k]; !ok || got != v {
				res.Violate("write-destroyed:restart", fmt.Sprintf("the application committed d[%s]=%q %s the restart; idle after the restart the LMDB holds present=%v %q", k, v, map[bool]string{true: "while the syncer was down, before", false: "during the start-up after"}[scn.WriteAt == "before-start"], ok, got), wit("restart writes"))
			}
		}
		newest := ""
		for _, n := range b.Names() {
			if strings.HasPrefix(n, dbName+"__a__") && n > newest {
				newest = n
			}
		}
		data, _ := b.Get(newest)
		ws, derr := wire.DecodeBlob(data)
		if derr != nil {
			res.Violate("own-snapshot-undecodable", fmt.Sprint(derr), wit(newest))
			return
		}
		have := map[string]string{}
		for _, d := range ws.DBIs {
			if d.Name == "d" {
				for _, e := range d.Entries {
					if e.Flags&1 == 0 {
						have[string(e.Key)] = string(e.Val)
					}
				}
			}
		}
		for k, v := range want {
			if have[k] != v {
				res.Violate("commit-not-published:restart", fmt.Sprintf("the loop is idle after the restart, the application committed d[%s]=%q, the newest own snapshot %s has %q", k, v, newest, have[k]), wit("restart writes"))
			}
		}
		res.NonTrivial = true
		return
	}
	// ---- oracles
	res.Count("restart_scenarios", 1)
	res.Count("bucket_mutations", int64(mon.Mutations))
	res.Count("conservation_checks", int64(mon.Checks))
	for _, v := range mon.Viol {
		res.Violate("published-data-lost", v, wit("conservation monitor"))
	}
	// ordering clause: no Store under the own name before the own newest snapshot was merged
	if ownNewest != "" {
		evs := s.Events()
		loadedAt := -1
		for i, e := range evs {
			if i >= incFrom && e.Inst == "a" && e.Point == "load.done" && e.Detail == ownNewest {
				loadedAt = i
				break
			}
		}
		for i, e := range evs {
			if i >= incFrom && e.Inst == "a" && e.Point == "send.before_store" && (loadedAt < 0 || i < loadedAt) {
				res.Violate("upload-before-own-snapshot-merged", fmt.Sprintf("after the restart instance a started uploading %s before it had merged its own newest snapshot %s", e.Detail, ownNewest), wit("ordering clause"))
				break
			}
		}
	}
	if len(mon.StoreSeq) > storesBefore {
		res.NonTrivial = true
	}
	res.Sample = map[string]any{"scenario": scn, "mutations": mon.Mutations, "stores_after_restart": len(mon.StoreSeq) - storesBefore, "keys_in_join": mon.KeysMax}
}

// ---------------------------------------------------------------- F2/F3: fleet with cleaners and storage faults

type FleetScn struct {
	Native   bool   `json:"native"`
	Seed     uint64 `json:"seed"`
	NInst    int    `json:"ninst"`
	Cleaners bool   `json:"cleaners"`
	Faults   string `json:"faults"` // none | store | store-after-write | list | load | delete | mixed
	Writes   int    `json:"writes"`
	SilentX  bool   `json:"silent_x"` // a silent, stale instance whose only snapshot holds unique data
	CtxAware bool   `json:"ctx_aware"`
}

func (s FleetScn) ID() string {
	m := "shadow"
	if s.Native {
		m = "native"
	}
	return fmt.Sprintf("%s-n%d-clean=%v-faults=%s-x=%v-%x", m, s.NInst, s.Cleaners, s.Faults, s.SilentX, s.Seed&0xffff)
}

func RunFleet(scn FleetScn, env *runner.Env, res *runner.Result) {
	r := rng.New(scn.Seed)
	b := bucket.New()
	b.CtxAware = scn.CtxAware
	mon := NewConsMon(dbName)
	b.OnMutation = mon.OnMutation
	s := sched.New()
	defer s.Close()
	if scn.SilentX {
		ts := time.Now().Add(-48 * time.Hour)
		xs := &wire.Snap{FormatVersion: 3, CompatVersion: 1, Meta: wire.Meta{DatabaseName: dbName, InstanceID: "x", GenerationID: "GX", TimestampNano: uint64(ts.UnixNano())},
			DBIs: []wire.DBI{{Name: "d", Entries: []wire.KV{{Key: []byte("only-in-x"), Val: []byte("precious"), TS: uint64(ts.UnixNano())}}}}}
		b.Put(snapshot.Name(dbName, "x", "GX", ts), wire.Gzip(wire.EncodeSnapshot(xs)))
	}
	// fault script: within the retry budget (5): bursts of at most 3 consecutive failures per op
	var fmu sync.Mutex
	hr := r.Derive(77) // the hook runs in other goroutines: own stream, under fmu
	burst := map[string]int{}
	faultsFired := 0
	faultOn := int32(1)
	b.SetHook(func(op, name string, nth int) bucket.Decision {
		if atomic.LoadInt32(&faultOn) == 0 || scn.Faults == "none" {
			return bucket.Decision{}
		}
		want := map[string][]string{"store": {"Store"}, "store-after-write": {"Store"}, "list": {"List"}, "load": {"Load"}, "delete": {"Delete"}, "mixed": {"Store", "List", "Load", "Delete"}}[scn.Faults]
		hit := false
		for _, o := range want {
			if o == op {
				hit = true
			}
		}
		if !hit {
			return bucket.Decision{}
		}
		fmu.Lock()
		defer fmu.Unlock()
		key := op + name
		if op == "List" {
			key = op
		}
		if burst[key] > 0 && burst[key] < 3 && hr.Chance(2, 3) {
			burst[key]++
			faultsFired++
			return bucket.Decision{Err: bucket.ErrInjected, AfterWrite: scn.Faults == "store-after-write" || (scn.Faults == "mixed" && hr.Bool())}
		}
		if burst[key] == 0 && hr.Chance(1, 4) {
			burst[key] = 1
			faultsFired++
			return bucket.Decision{Err: bucket.ErrInjected, AfterWrite: scn.Faults == "store-after-write"}
		}
		burst[key] = 0
		return bucket.Decision{}
	})
	var insts []*inst.Inst
	var loops []*sched.Loop
	for i := 0; i < scn.NInst; i++ {
		conf := lsx.FastConfig(fmt.Sprintf("i%d", i))
		if scn.Cleaners {
			conf.Storage.Cleanup = config.Cleanup{Enabled: true, Interval: 2 * time.Millisecond, MustKeepInterval: 0, RemoveOldInstancesInterval: time.Hour}
		}
		x, err := inst.New(env.Dir(fmt.Sprintf("fleet%d", i)), b, dbName, fmt.Sprintf("i%d", i), inst.Opt{Native: scn.Native, Conf: &conf})
		if err != nil {
			res.Verdict, res.Msg = runner.Inconclusive, err.Error()
			return
		}
		defer x.Close()
		AppPut(x, s, fmt.Sprintf("init-%d", i), "v")
		insts = append(insts, x)
	}
	for _, x := range insts {
		l := sched.Start(x, s)
		loops = append(loops, l)
		defer l.Stop(5 * time.Second)
	}
	// application writes, monotone per key per instance
	for w := 0; w < scn.Writes; w++ {
		x := insts[r.Intn(len(insts))]
		AppPut(x, s, fmt.Sprintf("k%d-%s", r.Intn(4), x.Name), fmt.Sprintf("w%d", w))
		time.Sleep(time.Duration(r.Intn(1500)) * time.Microsecond)
	}
	// faults stop; everything must settle
	atomic.StoreInt32(&faultOn, 0)
	const wd = 20 * time.Second
	for _, l := range loops {
		if ok, why := l.WaitQuiescent(nil, 5, wd); !ok {
			if err, c, fin := l.Result(); fin {
				res.Violate("sync-ended", fmt.Sprintf("Sync of %s ended (err=%v crashed=%v) under faults within the retry budget", l.I.Name, err, c), map[string]any{"scenario": scn, "events_tail": s.Tail(60)})
				return
			}
			res.Verdict, res.Msg = runner.Inconclusive, "fleet did not settle: "+why
			return
		}
	}
	// give the cleaners a few more runs
	if scn.Cleaners {
		time.Sleep(20 * time.Millisecond)
	}
	res.Count("fleet_scenarios", 1)
	res.Count("bucket_mutations", int64(mon.Mutations))
	res.Count("conservation_checks", int64(mon.Checks))
	res.Count("faults_fired", int64(faultsFired))
	dels := 0
	for _, e := range b.Log() {
		if e.Op == "Delete" && e.Err == "" {
			dels++
		}
	}
	res.Count("cleaner_deletes", int64(dels))
	for _, v := range mon.Viol {
		res.Violate("published-data-lost", v, map[string]any{"scenario": scn, "events_tail": s.Tail(60), "stores": mon.StoreSeq})
	}
	if scn.SilentX && !fleetHasKey(b, "only-in-x") {
		res.Violate("published-data-lost", "the silent instance's unique key is in no snapshot of the bucket any more", map[string]any{"scenario": scn, "names": b.Names()})
	}
	res.NonTrivial = mon.Mutations > 0 && (faultsFired > 0 || dels > 0 || scn.Faults == "none")
	res.Sample = map[string]any{"scenario": scn, "mutations": mon.Mutations, "faults_fired": faultsFired, "deletes": dels, "keys_in_join": mon.KeysMax}
}

func fleetHasKey(b *bucket.B, key string) bool {
	for _, n := range b.Names() {
		data, _ := b.Get(n)
		ws, err := wire.DecodeBlob(data)
		if err != nil {
			continue
		}
		for _, d := range ws.DBIs {
			for _, e := range d.Entries {
				if string(e.Key) == key {
					return true
				}
			}
		}
	}
	return false
}

// ---------------------------------------------------------------- property

type c05Params struct {
	Restart *RestartScn `json:"restart,omitempty"`
	Fleet   *FleetScn   `json:"fleet,omitempty"`
	Clean   *CleanScn   `json:"clean,omitempty"`
}

func C05() *runner.Property {
	return &runner.Property{
		ID: "C05", Level: "fault_enumeration",
		Rule: "an online conservation monitor inside the instrumented bucket recomputes, after every successful Store/Delete, the per-key maximum over the newest snapshot of every instance (decoded by the independent decoder) and asserts that no key lost its version or moved to a lower timestamp. " +
			"restart: the real Sync loop of an instance is stopped (runtime.Goexit at a yield point = process death at step granularity) at each of 13 yield points x occurrence 1-2, then restarted under the same name with its LMDB kept or replaced by an empty one, with the application writing before the start / at start-up yield points, " +
			"the download of the own old snapshot held back 0-3 loop iterations or failing, and with/without a second live instance; ordering clause: no upload under the own name before load.done of the own newest snapshot. " +
			"cleaner-forced: the real cleaner of an instance (virtual clock) is invoked at every yield point and inside every Store attempt while that instance merges the only snapshot of a stale instance and its own upload fails 0-4 times, fails after writing, or the process dies during the retries; " +
			"fleet: 2-3 real loops with real background cleaners (tiny intervals), a silent stale instance whose only snapshot holds unique data, and scripted List/Load/Store/Delete faults (bursts below the retry budget, incl. Store failing after the blob was written; ctx-honouring and ctx-ignoring bucket). " +
			"Non-trivial = the armed crash fired / faults or deletes happened, and bucket mutations followed. Distinct by scenario.",
		Assumptions: []string{"sweeper disabled (no retention exception)", "crash points at yield-point granularity; LMDB transactions and bucket operations are atomic", "application writes are monotone per key per instance"},
		BatchSize:   8, CaseTimeout: 120e9,
		MinNonTrivial: func(tier string) int { return 50 },
		Cases: func(tier string, seed int64) []runner.Case {
			var cs []runner.Case
			r := rng.New(uint64(seed) ^ 0xC05)
			maxNth := 1
			if tier == "thorough" {
				maxNth = 2
			}
			for _, native := range []bool{true, false} {
				for _, p := range CrashPoints {
					for nth := 1; nth <= maxNth; nth++ {
						for _, emptied := range []bool{false, true} {
							// the remaining dimensions are chosen by the PRNG per combination (enumerated fully in thorough)
							combos := 2
							if tier == "thorough" {
								combos = 8
							}
							for c := 0; c < combos; c++ {
								sc := RestartScn{Native: native, CrashPoint: p, CrashNth: nth, Emptied: emptied, WithB: r.Bool(), GateIters: rng.Pick(r, 0, 1, 3, 6),
									WriteAt: rng.Pick(r, "before-start", "before-start", "startup.listed", "startup.before_first_send", "loop.top", "none"), LoadFails: rng.Pick(r, 0, 0, 1, 2)}
								if c == 0 {
									sc.WithB, sc.WriteAt, sc.GateIters = false, "before-start", 3 // the sharpest combination always present
								}
								cs = append(cs, runner.MkCase("restart", fmt.Sprintf("%d-%s", c, sc.ID()), c05Params{Restart: &sc}))
							}
						}
					}
				}
			}
			for _, native := range []bool{true, false} {
				for _, sf := range []int{0, 1, 2, 4} {
					for _, aw := range []bool{false, true} {
						for _, crash := range []bool{false, true} {
							if (aw || crash) && sf == 0 {
								continue
							}
							sc := CleanScn{Native: native, StoreFails: sf, AfterWrite: aw, Crash: crash}
							cs = append(cs, runner.MkCase("cleaner-forced", sc.ID(), c05Params{Clean: &sc}))
						}
					}
				}
			}
			nf := 40
			if tier == "thorough" {
				nf = 600
			}
			faults := []string{"none", "store", "store-after-write", "list", "load", "delete", "mixed"}
			for i := 0; i < nf; i++ {
				sc := FleetScn{Native: i%2 == 0, Seed: r.U64(), NInst: 2 + r.Intn(2), Cleaners: i%4 != 3, Faults: faults[i%len(faults)], Writes: 5 + r.Intn(20), SilentX: r.Chance(2, 3), CtxAware: r.Bool()}
				cs = append(cs, runner.MkCase("fleet", fmt.Sprintf("%d-%s", i, sc.ID()), c05Params{Fleet: &sc}))
			}
			return cs
		},
		Run: func(c runner.Case, env *runner.Env) (res runner.Result) {
			var p c05Params
			runner.Params(c, &p)
			res.Key = c.ID
			if p.Clean != nil {
				RunCleanForced(*p.Clean, env, &res)
			} else if p.Restart != nil {
				RunRestart(*p.Restart, env, &res)
			} else {
				RunFleet(*p.Fleet, env, &res)
			}
			return
		},
	}
}

var _ = sort.Strings

// ---------------------------------------------------------------- F2 (deterministic): cleaner runs at every position of a merge + failing upload

type CleanScn struct {
	Native     bool `json:"native"`
	StoreFails int  `json:"store_fails"`
	AfterWrite bool `json:"fail_after_write"`
	Crash      bool `json:"crash_during_retry"` // the instance dies while the upload is being retried (LMDB then emptied)
}

func (s CleanScn) ID() string {
	return fmt.Sprintf("native=%v-sf%d-aw=%v-crash=%v", s.Native, s.StoreFails, s.AfterWrite, s.Crash)
}

// RunCleanForced: instance a (cleaning enabled, background pass frozen by a huge interval) merges the only snapshot
// of a stale instance x; the real cleaner is invoked with a virtual clock at every yield point and inside every Store
// attempt (also the failing ones). Phase 2 (after a's first upload): a second, newer snapshot of x and a snapshot of
// another stale instance y appear; a merges them without any local change (so it does not upload), while the cleaner
// keeps running; only then the application writes once more. which = "C05" reports the conservation monitor,
// "C12" the deletion policy (a stale instance's newest snapshot only after an own successful Store that followed its merge).
func RunCleanForced(scn CleanScn, env *runner.Env, res *runner.Result) {
	runCleanForced(scn, env, res, "C05")
}

// RunCleanForcedPolicy is the same execution judged by the cleaner policy (C12).
func RunCleanForcedPolicy(scn CleanScn, env *runner.Env, res *runner.Result) {
	runCleanForced(scn, env, res, "C12")
}

func runCleanForced(scn CleanScn, env *runner.Env, res *runner.Result, which string) {
	b := bucket.New()
	mon := NewConsMon(dbName)
	b.OnMutation = mon.OnMutation
	s := sched.New()
	defer s.Close()
	stale := func(instName string, age time.Duration, key string) (string, []byte) {
		ts := time.Now().Add(-age)
		ws := &wire.Snap{FormatVersion: 3, CompatVersion: 1, Meta: wire.Meta{DatabaseName: dbName, InstanceID: instName, GenerationID: "GX", TimestampNano: uint64(ts.UnixNano())},
			DBIs: []wire.DBI{{Name: "d", Entries: []wire.KV{{Key: []byte(key), Val: []byte("precious"), TS: uint64(ts.UnixNano())}}}}}
		return snapshot.Name(dbName, instName, "GX", ts), wire.Gzip(wire.EncodeSnapshot(ws))
	}
	xname, xdata := stale("x", 30*24*time.Hour, "only-in-x")
	b.Put(xname, xdata)
	mon.OnMutation(b, bucket.Event{Op: "Store", Name: xname}) // Put is not a logged mutation: tell the monitor
	conf := lsx.FastConfig("a")
	conf.Storage.Cleanup = config.Cleanup{Enabled: true, Interval: 10 * time.Hour, MustKeepInterval: 0, RemoveOldInstancesInterval: 24 * time.Hour}
	conf.StorageRetryCount = 6
	a, err := inst.New(env.Dir("c05clean"), b, dbName, "a", inst.Opt{Native: scn.Native, Conf: &conf})
	if err != nil {
		res.Verdict, res.Msg = runner.Inconclusive, err.Error()
		return
	}
	defer a.Close()
	cl := a.S.VerifCleaner()
	var bgDone, wrote, storeN, cleanerRuns, phase int32
	// per stale blob: merged? own successful Store after the merge?
	var mu sync.Mutex
	loaded := map[string]bool{}
	storedAfter := map[string]bool{}
	var policyViol []string
	var staleBlobs = []string{xname}
	vnow := time.Now().Add(time.Hour)
	runCleaner := func(where string) {
		if atomic.LoadInt32(&bgDone) == 0 {
			return
		}
		start := len(b.Log())
		_ = cl.RunOnce(context.Background(), vnow)
		vnow = vnow.Add(time.Minute)
		atomic.AddInt32(&cleanerRuns, 1)
		for _, e := range b.Log()[start:] {
			if e.Op != "Delete" {
				continue
			}
			mu.Lock()
			for _, sb := range staleBlobs {
				if e.Name == sb && !(loaded[sb] && storedAfter[sb]) {
					policyViol = append(policyViol, fmt.Sprintf("the newest snapshot %s of a stale instance was deleted at %q: merged=%v, own successful Store after that merge=%v", sb, where, loaded[sb], storedAfter[sb]))
				}
			}
			mu.Unlock()
		}
	}
	b.SetHook(func(op, name string, nth int) bucket.Decision {
		if op == "Store" {
			n := int(atomic.AddInt32(&storeN, 1))
			runCleaner(fmt.Sprintf("store attempt %d", n))
			if n <= scn.StoreFails {
				if scn.Crash && n == scn.StoreFails {
					sched.Crash(sched.Event{})
				}
				return bucket.Decision{Err: bucket.ErrInjected, AfterWrite: scn.AfterWrite && n == scn.StoreFails}
			}
		}
		return bucket.Decision{}
	})
	prevOnMut := b.OnMutation
	b.OnMutation = func(bb *bucket.B, ev bucket.Event) {
		prevOnMut(bb, ev)
		if ev.Op == "Store" && ev.Err == "" && strings.HasPrefix(ev.Name, dbName+"__a__") {
			mu.Lock()
			for sb := range loaded {
				storedAfter[sb] = true
			}
			mu.Unlock()
		}
	}
	var x2name, y1name string
	s.Delay = func(in, point string) {
		if point == "cleaner.run_done" {
			atomic.StoreInt32(&bgDone, 1)
			return
		}
		if in != "a" {
			return
		}
		switch point {
		case "load.done":
			runCleaner("load.done")
		case "loop.end":
			runCleaner("loop.end")
			mu.Lock()
			lx := loaded[xname]
			mu.Unlock()
			if lx && s.Count("a", "loop.end", 0) >= 2 && atomic.CompareAndSwapInt32(&wrote, 0, 1) {
				AppPut(a, s, "local", "v")
			}
		case "send.before_store", "send.after_store", "loop.top", "load.before_txn", "send.before_txn":
			runCleaner(point)
		}
	}
	// load.done bookkeeping through an arm-less scan of the event log (the Delay callback gets no detail)
	markLoaded := func() {
		for _, e := range s.Events() {
			if e.Inst == "a" && e.Point == "load.done" {
				mu.Lock()
				loaded[e.Detail] = true
				mu.Unlock()
			}
		}
	}
	loop := sched.Start(a, s)
	defer loop.Stop(5 * time.Second)
	dl := time.Now().Add(25 * time.Second)
	phase2Idle := 0
	for time.Now().Before(dl) {
		if _, _, fin := loop.Result(); fin {
			break
		}
		markLoaded()
		switch atomic.LoadInt32(&phase) {
		case 0:
			if int(atomic.LoadInt32(&storeN)) > scn.StoreFails && b.SuccessfulCount("Store") > 0 && s.IdleIterations("a", 0) >= 3 {
				if scn.Crash {
					atomic.StoreInt32(&phase, 3)
					break
				}
				// phase 2: newer snapshot of x and a snapshot of another stale instance appear; no local change
				var d []byte
				x2name, d = stale("x", 29*24*time.Hour, "only-in-x2")
				b.Put(x2name, d)
				mon.OnMutation(b, bucket.Event{Op: "Store", Name: x2name})
				y1name, d = stale("y", 20*24*time.Hour, "only-in-y")
				b.Put(y1name, d)
				mon.OnMutation(b, bucket.Event{Op: "Store", Name: y1name})
				mu.Lock()
				staleBlobs = []string{x2name, y1name}
				mu.Unlock()
				s.Note("x", "STAGE second snapshot of x and a snapshot of y")
				phase2Idle = s.Count("a", "loop.end", 0)
				atomic.StoreInt32(&phase, 1)
			}
		case 1:
			mu.Lock()
			both := loaded[x2name] && loaded[y1name]
			mu.Unlock()
			if both && s.Count("a", "loop.end", 0) > phase2Idle+25 {
				// the cleaner ran ~100 times without an upload of a in between; now the application writes again
				AppPut(a, s, "local2", "v")
				atomic.StoreInt32(&phase, 2)
				phase2Idle = s.Count("a", "loop.end", 0)
			}
		case 2:
			if s.Count("a", "loop.end", 0) > phase2Idle+15 {
				atomic.StoreInt32(&phase, 3)
			}
		}
		if atomic.LoadInt32(&phase) == 3 {
			break
		}
		time.Sleep(300 * time.Microsecond)
	}
	// late phase: the instance stays quiet for longer than the stale-instance interval (nothing is uploaded any more,
	// the loop is stopped so that the cleaner can be driven from here). Its own newest snapshot was merged and
	// re-published by nobody: no rule allows the cleaner to remove it.
	ownNewestLate := ""
	if !scn.Crash && atomic.LoadInt32(&phase) == 3 {
		loop.Stop(5 * time.Second)
		for _, n := range b.Names() {
			if strings.HasPrefix(n, dbName+"__a__") && n > ownNewestLate {
				ownNewestLate = n
			}
		}
		vlate := vnow.Add(72 * time.Hour)
		for k := 0; k < 3; k++ {
			start := len(b.Log())
			_ = cl.RunOnce(context.Background(), vlate)
			vlate = vlate.Add(2 * time.Hour)
			for _, e := range b.Log()[start:] {
				if e.Op == "Delete" && e.Err == "" && e.Name == ownNewestLate {
					mu.Lock()
					policyViol = append(policyViol, fmt.Sprintf("the instance's own newest snapshot %s was deleted by its own cleaner after it had been quiet for 3 days (stale-instance interval 1 day): nobody merged and re-published it", ownNewestLate))
					mu.Unlock()
				}
			}
		}
		res.Count("late_quiet_phases", 1)
	}
	res.Count("cleaner_forced_scenarios", 1)
	res.Count("cleaner_runs_forced", int64(atomic.LoadInt32(&cleanerRuns)))
	res.Count("bucket_mutations", int64(mon.Mutations))
	res.Count("conservation_checks", int64(mon.Checks))
	res.Add("phase_reached", fmt.Sprint(atomic.LoadInt32(&phase)))
	mu.Lock()
	lx := loaded[xname]
	pv := append([]string{}, policyViol...)
	mu.Unlock()
	if !lx {
		res.Verdict, res.Msg = runner.Inconclusive, "x was never merged"
		return
	}
	wit := map[string]any{"scenario": scn, "events_tail": s.Tail(70), "stores": mon.StoreSeq, "names": b.Names()}
	if which == "C12" {
		for _, v := range pv {
			res.Violate("stale-newest-deleted-before-own-upload", v, wit)
		}
	} else {
		for _, v := range mon.Viol {
			res.Violate("published-data-lost", v, wit)
		}
		for _, k := range []string{"only-in-x", "only-in-x2", "only-in-y"} {
			if (k == "only-in-x" || atomic.LoadInt32(&phase) >= 1) && !fleetHasKey(b, k) {
				res.Violate("published-data-lost", "the unique key "+k+" of a stale instance is in no snapshot of the bucket any more", wit)
			}
		}
	}
	res.NonTrivial = atomic.LoadInt32(&cleanerRuns) > 3
	res.Sample = map[string]any{"scenario": scn, "cleaner_runs": cleanerRuns, "store_attempts": storeN, "mutations": mon.Mutations, "phase": phase}
}
