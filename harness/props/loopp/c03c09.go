package loopp

import (
	"fmt"

	"verif/rng"
	"verif/runner"
)

func scnCases(tier string, seed int64, forC09 bool) []runner.Case {
	var cs []runner.Case
	add := func(fam string, s Scn) {
		cs = append(cs, runner.MkCase(fam, s.ID(), s))
	}
	for _, native := range []bool{true, false} {
		for _, p := range Points {
			for _, k := range Kinds {
				for _, rem := range []string{"none", "nonews", "news"} {
					for _, pre := range []bool{false, true} {
						add("enum", Scn{Native: native, Point: p, Nth: 1, Kind: k, Remote: rem, Prewrite: pre})
					}
				}
			}
		}
	}
	// the injection is ordered after the merge of the staged snapshot
	for _, native := range []bool{true, false} {
		for _, p := range []string{"loop.top", "loop.before_info", "loop.after_info", "loop.end", "send.before_txn"} {
			for _, k := range Kinds {
				for _, rem := range []string{"nonews", "news"} {
					add("afterload", Scn{Native: native, Point: p, Nth: 1, Kind: k, Remote: rem, AfterLoad: true})
				}
			}
		}
	}
	// LoadOnce itself captures an earlier local change, the SendOnce that follows is empty
	for _, native := range []bool{true, false} {
		for _, p := range []string{"load.after_txn", "load.done", "loop.before_info", "send.before_txn", "send.after_txn", "send.before_store", "send.after_store", "loop.end", "loop.top"} {
			for _, k := range []string{"insert", "overwrite", "delete", "newdbi"} {
				for _, rem := range []string{"nonews", "news"} {
					nth := 1
					if p == "loop.top" {
						nth = 1 // armed from inside loop.top: the next one
					}
					add("loadcapture", Scn{Native: native, Point: p, Nth: nth, Kind: k, Remote: rem, LoadCapture: true})
				}
			}
		}
	}
	// the merge transaction stays empty because its only entry is a deletion marker past the sweeper's cutoff
	for _, native := range []bool{true, false} {
		for _, p := range []string{"load.before_txn", "load.after_txn", "load.done", "loop.before_info", "loop.after_info", "loop.end", "send.before_txn"} {
			for _, k := range []string{"insert", "overwrite", "delete", "newdbi"} {
				add("staletomb", Scn{Native: native, Point: p, Nth: 1, Kind: k, Remote: "staletomb", Sweeper: true, AfterLoad: p[:4] != "load"})
			}
		}
	}
	// the application deletes the last key of a DBI
	for _, native := range []bool{true, false} {
		for _, p := range Points {
			for _, rem := range []string{"none", "nonews", "news"} {
				add("emptydbi", Scn{Native: native, Point: p, Nth: 1, Kind: "empty-dbi", Remote: rem, Prewrite: rem == "none"})
			}
		}
	}
	// a receive-only instance with a local application: its commits must survive the merges (nothing is ever uploaded)
	if !forC09 {
		for _, native := range []bool{true, false} {
			for _, p := range []string{"loop.top", "loop.before_info", "loop.after_info", "send.before_txn", "send.after_txn", "load.before_txn", "load.after_txn", "load.done", "loop.end"} {
				for _, k := range []string{"insert", "overwrite", "delete"} {
					for _, rem := range []string{"nonews", "news"} {
						add("receiveonly", Scn{Native: native, Point: p, Nth: 1, Kind: k, Remote: rem, ReceiveOnly: true})
					}
				}
			}
		}
	}
	// the commit lands inside the start-up of a first run: around the start-up capture and the initial snapshot
	for _, native := range []bool{true, false} {
		for _, p := range []string{"startup.listed", "startup.before_first_send", "send.before_txn", "send.after_txn", "send.before_store", "send.after_store", "loop.top", "loop.before_info"} {
			for _, k := range []string{"insert", "overwrite", "delete", "newdbi"} {
				add("atstartup", Scn{Native: native, Point: p, Nth: 1, Kind: k, Remote: "none", AtStartup: true})
			}
		}
	}
	// deletion markers older than the retention arrive for keys the application has just written (sweeper cutoff on)
	for _, native := range []bool{true, false} {
		for _, p := range []string{"loop.top", "loop.after_info", "load.before_txn", "send.after_txn", "loop.end"} {
			for _, k := range []string{"insert", "overwrite", "newdbi"} {
				add("stalemarker-vs-local", Scn{Native: native, Point: p, Nth: 1, Kind: k, Remote: "staletomb-local", Sweeper: true, Prewrite: true})
			}
		}
	}
	// empty-value sub-family (insert/overwrite only)
	for _, native := range []bool{true, false} {
		for _, p := range []string{"loop.top", "load.after_txn", "send.after_txn", "loop.end"} {
			for _, k := range []string{"insert", "overwrite"} {
				add("emptyvalue", Scn{Native: native, Point: p, Nth: 1, Kind: k, Remote: "news", Prewrite: true, EmptyVal: true})
			}
		}
	}
	// header padding on
	for _, p := range []string{"load.after_txn", "send.after_txn", "loop.after_info"} {
		add("padding", Scn{Native: true, Point: p, Nth: 1, Kind: "insert", Remote: "nonews", Prewrite: true, Padding: true})
	}
	if forC09 {
		// failing-then-succeeding uploads of the snapshot that should carry the write
		for _, native := range []bool{true, false} {
			for _, p := range []string{"loop.top", "loop.after_info", "send.before_txn", "send.after_txn", "send.before_store", "load.after_txn", "load.done"} {
				for _, sf := range []int{1, 2, 4} {
					add("storefaults", Scn{Native: native, Point: p, Nth: 1, Kind: "insert", Remote: "nonews", Prewrite: true, StoreFails: sf})
					add("storefaults", Scn{Native: native, Point: p, Nth: 1, Kind: "overwrite", Remote: "none", Prewrite: true, StoreFails: sf})
				}
			}
		}
	}
	if tier == "thorough" {
		for _, native := range []bool{true, false} {
			for _, p := range Points {
				for _, k := range Kinds {
					for _, rem := range []string{"none", "nonews", "news"} {
						for _, nth := range []int{2, 3} {
							add("enum-nth", Scn{Native: native, Point: p, Nth: nth, Kind: k, Remote: rem, Prewrite: true})
						}
					}
				}
			}
		}
	}
	// random multi-injection schedules
	r := rng.New(uint64(seed) ^ 0xC0309)
	n := 60
	if tier == "thorough" {
		n = 2000
	}
	for i := 0; i < n; i++ {
		s := Scn{Native: r.Bool(), Point: Points[r.Intn(len(Points))], Nth: 1 + r.Intn(2), Kind: Kinds[r.Intn(len(Kinds))], Remote: rng.Pick(r, "none", "nonews", "news"), Prewrite: r.Bool()}
		for k := 0; k < 1+r.Intn(3); k++ {
			s.Extra = append(s.Extra, Inj{Point: Points[r.Intn(len(Points))], Nth: 1 + r.Intn(3), Kind: Kinds[r.Intn(len(Kinds))]})
		}
		if forC09 && r.Chance(1, 3) {
			s.StoreFails = 1 + r.Intn(3)
		}
		cs = append(cs, runner.MkCase("random", fmt.Sprintf("%d-%s", i, s.ID()), s))
	}
	return cs
}

const scnRule = "the real Sync loop runs in its own goroutine with 1 ms poll intervals; guarded yield points block it exactly between two of its own steps while the harness (as the application) commits a transaction there. A case = mode (native|shadow) x yield point x n-th occurrence x change kind (insert, overwrite, delete, new DBI, rewrite of the same value) x remote snapshot pending (none | one that brings nothing new => Lightning Stream's own write transaction is empty | one with news) x an earlier application commit that makes the loop upload; " +
	"plus an empty-value sub-family, header padding, failing-then-succeeding Store calls (C09) and seeded random multi-injection schedules. After the injection the loop must reach an idle state (all staged snapshots merged, then 3 loop iterations without send/load activity, logical clock); then a further remote snapshot is merged and the oracles run again. " +
	"Non-trivial = the armed yield point fired, the application commit happened there and quiescence was reached; a case whose point does not occur in its context is counted separately and is not non-trivial. Distinct by scenario."

func C03() *runner.Property {
	return &runner.Property{
		ID: "C03", Level: "fault_enumeration",
		Rule:        "C03 oracle: after the injection and again after a following remote merge, every key the application committed reads back exactly as committed (deletes: absent), remote content being silent on those keys or unable to win. " + scnRule,
		Assumptions: []string{"staged remote versions are stamped in 2001 and cannot win last-writer-wins against anything the application writes now", "crash points and schedules are at yield-point granularity (LMDB transactions are atomic)"},
		BatchSize:   12, CaseTimeout: 90e9,
		MinNonTrivial: func(tier string) int { return 100 },
		Cases:         func(tier string, seed int64) []runner.Case { return append(scnCases(tier, seed, false), restartCases()...) },
		Run: func(c runner.Case, env *runner.Env) (res runner.Result) {
			if c.Family == "restart" {
				return runRestartCase(c, env)
			}
			var s Scn
			runner.Params(c, &s)
			res.Key = c.ID
			RunScn(s, env, &res, "C03")
			return
		},
	}
}

func C09() *runner.Property {
	return &runner.Property{
		ID: "C09", Level: "fault_enumeration",
		Rule:        "C09 oracle: whenever the loop is idle, the newest snapshot under the instance's own name contains, for every key the application wrote, a version at least as new (native: timestamp/flags/value the application wrote; shadow: the value or deletion); Sync ending instead of publishing is a violation. " + scnRule,
		Assumptions: []string{"the forced snapshot interval is disabled, so nothing but change detection can publish a commit", "Store failures stay below the retry budget (5 attempts)"},
		BatchSize:   12, CaseTimeout: 90e9,
		MinNonTrivial: func(tier string) int { return 100 },
		Cases:         func(tier string, seed int64) []runner.Case { return append(scnCases(tier, seed, true), restartCases()...) },
		Run: func(c runner.Case, env *runner.Env) (res runner.Result) {
			if c.Family == "restart" {
				return runRestartCase(c, env)
			}
			var s Scn
			runner.Params(c, &s)
			res.Key = c.ID
			RunScn(s, env, &res, "C09")
			return
		},
	}
}

// restartCases: commits made while the syncer is down (incl. overwrites of keys the own old snapshot holds) or during
// the start-up phases of the restarted syncer, with the own old snapshot in the bucket.
func restartCases() []runner.Case {
	var cs []runner.Case
	for _, native := range []bool{true, false} {
		for _, emptied := range []bool{false, true} {
			for _, wa := range []string{"before-start", "startup.listed", "startup.before_first_send", "loop.top", "load.before_txn", "load.after_txn", "load.done", "loop.before_info", "send.before_txn"} {
				for _, gate := range []int{0, 3} {
					sc := RestartScn{Native: native, CrashPoint: "loop.end", CrashNth: 1, Emptied: emptied, GateIters: gate, WriteAt: wa, CheckWrites: true}
					cs = append(cs, runner.MkCase("restart", sc.ID(), sc))
				}
			}
		}
	}
	return cs
}

func runRestartCase(c runner.Case, env *runner.Env) (res runner.Result) {
	var sc RestartScn
	runner.Params(c, &sc)
	res.Key = c.ID
	RunRestart(sc, env, &res)
	return
}

// C10LoopCases are the forced-schedule scenarios judged by the upload-causality monitor.
func C10LoopCases(tier string, seed int64) []runner.Case { return scnCases(tier, seed, true) }

// RunC10Loop runs one scenario with the C10 oracle.
func RunC10Loop(c runner.Case, env *runner.Env) (res runner.Result) {
	var s Scn
	runner.Params(c, &s)
	res.Key = c.ID
	RunScn(s, env, &res, "C10")
	return
}
