// Package concp holds the monitors for C17: concurrent components neither race
// nor deadlock. The worker for this group is built with the race detector.
package concp

import (
	"context"
	"fmt"
	"os"
	"path/filepath"
	"regexp"
	"runtime"
	"sort"
	"strings"
	"sync"
	"sync/atomic"
	"time"

	"github.com/PowerDNS/simpleblob"

	"github.com/PowerDNS/lightningstream/config"
	"github.com/PowerDNS/lightningstream/snapshot"
	"github.com/PowerDNS/lightningstream/snapshot/storage"
	"github.com/PowerDNS/lightningstream/syncer"
	"github.com/PowerDNS/lightningstream/syncer/events"
	"github.com/PowerDNS/lightningstream/utils/climit"
	"github.com/PowerDNS/lightningstream/utils/topics"

	"verif/bucket"
	"verif/inst"
	"verif/lsx"
	"verif/props/loopp"
	"verif/recvx"
	"verif/rng"
	"verif/runner"
	"verif/sched"
	"verif/wire"
)

type c17Params struct {
	Part   string `json:"part"` // fleet | cancel | topics | storage | tokens
	Seed   uint64 `json:"seed"`
	Native bool   `json:"native,omitempty"`
	Point  string `json:"point,omitempty"`
	Nth    int    `json:"nth,omitempty"`
	Sub    string `json:"sub,omitempty"`
	Count  int    `json:"count,omitempty"`
}

func C17() *runner.Property {
	return &runner.Property{
		ID: "C17", Level: "exploration",
		Rule: "all cases run in a worker built with the Go race detector (GORACE halt_on_error=0, reports collected from log files, de-duplicated by the pair of innermost repository frames; a report with both sides in repository code is a violation, one with a harness frame marks the check as broken). " +
			"fleet: 2-4 real sync loops on one bucket with cleaners (1 ms interval, stale interval 1 ns so committed times are read while they are set), sweepers, application writers, storage faults (health trackers), event subscribers through Options.Events that consume, fail and close at random, and yield points injecting Gosched/short sleeps between critical sections; cancelling must make every Sync return. " +
			"cancel: a real Sync is cancelled at every yield point x occurrence and at random instants, with a ctx-honouring and a ctx-ignoring bucket, with and without failing List during start-up: Sync must return (watchdog 10 s, then the goroutine dump is the witness). " +
			"topics: closed systems of publishers, Handle subscribers whose callback fails at a chosen event, and raw subscribers that Close before/while/after a delivery (the 'while' case is forced: the subscriber signals from its receive path and Close runs while the next publish is in flight): every actor must finish; a blocked publisher or subscriber is a deadlock (no timers in the system), a publisher panic is recorded. " +
			"storage: one process per trial: getters started before / concurrently with / after SetGlobal (and a second SetGlobal) must all return a handle that was set. tokens: the same token released concurrently from several goroutines many times; the limit must stay intact. " +
			"Non-trivial = the intended overlap was observed (e.g. Close started while a publish was in flight, cancel point fired).",
		Assumptions: []string{"the race detector only sees the interleavings produced; races inside cgo/LMDB are invisible to it", "leftover helper goroutines after a cancelled Sync are recorded as observations: the statement only promises that the sync loop returns"},
		BatchSize:   1, CaseTimeout: 120e9,
		ChildEnv:      []string{"GORACE=halt_on_error=0 log_path={SCRATCH}/race-{TAG}"},
		MinNonTrivial: func(string) int { return 20 },
		PostProcess:   collectRaces,
		Cases: func(tier string, seed int64) []runner.Case {
			r := rng.New(uint64(seed) ^ 0xC17)
			var cs []runner.Case
			nf, nt, ns, nk := 10, 20, 30, 6
			randCancel := 40
			if tier == "thorough" {
				nf, nt, ns, nk = 120, 300, 300, 40
				randCancel = 600
			}
			for i := 0; i < nf; i++ {
				cs = append(cs, runner.MkCase("fleet", fmt.Sprint(i), c17Params{Part: "fleet", Seed: r.U64(), Native: i%2 == 0}))
			}
			points := append([]string{"startup.list_failed", "startup.listed", "startup.before_first_send"}, loopp.Points...)
			for _, native := range []bool{true, false} {
				for _, p := range points {
					for nth := 1; nth <= 2; nth++ {
						for _, sub := range []string{"ctx-aware", "ctx-ignoring"} {
							if nth == 2 && tier != "thorough" && sub == "ctx-ignoring" {
								continue
							}
							cs = append(cs, runner.MkCase("cancel", fmt.Sprintf("native=%v-%s#%d-%s", native, p, nth, sub), c17Params{Part: "cancel", Seed: r.U64(), Native: native, Point: p, Nth: nth, Sub: sub}))
						}
					}
				}
			}
			for i := 0; i < randCancel; i++ {
				cs = append(cs, runner.MkCase("cancel-random", fmt.Sprint(i), c17Params{Part: "cancel", Seed: r.U64(), Native: i%2 == 0, Point: "", Sub: rng.Pick(r, "ctx-aware", "ctx-ignoring", "ctx-aware-list-fails")}))
			}
			// uploads that keep failing with storage_retry_forever: cancellation must still end the loop
			for _, native := range []bool{true, false} {
				for _, p := range []string{"send.before_store", "send.after_txn", "", ""} {
					for _, sub := range []string{"ctx-aware-store-fails-forever", "ctx-ignoring-store-fails-forever"} {
						cs = append(cs, runner.MkCase("cancel-retry-forever", fmt.Sprintf("native=%v-%s-%s-%d", native, p, sub, len(cs)), c17Params{Part: "cancel", Seed: r.U64(), Native: native, Point: p, Nth: 1, Sub: sub}))
					}
				}
			}
			for i := 0; i < nt; i++ {
				cs = append(cs, runner.MkCase("topics", fmt.Sprint(i), c17Params{Part: "topics", Seed: r.U64(), Count: 25}))
			}
			for i := 0; i < ns; i++ {
				cs = append(cs, runner.MkCase("storage", fmt.Sprint(i), c17Params{Part: "storage", Seed: r.U64(), Sub: []string{"before", "concurrent", "after", "before-two-sets", "mixed"}[i%5]}))
			}
			// the storage is set only after the waiting callers have logged their first "still waiting" warning (10 s)
			cs = append(cs, runner.MkCase("storage", "long-wait-0", c17Params{Part: "storage", Seed: r.U64(), Sub: "before-long"}))
			if tier == "thorough" {
				cs = append(cs, runner.MkCase("storage", "long-wait-1", c17Params{Part: "storage", Seed: r.U64(), Sub: "before-long"}))
			}
			for i := 0; i < nk; i++ {
				cs = append(cs, runner.MkCase("tokens", fmt.Sprint(i), c17Params{Part: "tokens", Seed: r.U64(), Count: 3000}))
			}
			return cs
		},
		Run: runC17,
	}
}

func runC17(c runner.Case, env *runner.Env) (res runner.Result) {
	var p c17Params
	runner.Params(c, &p)
	res.Key = c.ID
	switch p.Part {
	case "fleet":
		runRaceFleet(p, env, &res)
	case "cancel":
		runCancel(p, env, &res)
	case "topics":
		runTopics(p, &res)
	case "storage":
		runStorage(p, &res)
	case "tokens":
		runTokens(p, &res)
	}
	return
}

// ---------------------------------------------------------------- race reports

var reFrame = regexp.MustCompile(`^\s+([A-Za-z0-9_./\-]+(?:\(\*?[A-Za-z0-9_\[\]., ]+\))?[A-Za-z0-9_.\-\[\]]*)\(`)

func collectRaces(a *runner.Aggregate, scratch string) {
	files, _ := filepath.Glob(filepath.Join(scratch, "race-*"))
	type report struct {
		sig  string
		text string
		repo [2]bool
		harn bool
	}
	seen := map[string]report{}
	total := 0
	for _, f := range files {
		b, err := os.ReadFile(f)
		if err != nil {
			continue
		}
		blocks := strings.Split(string(b), "WARNING: DATA RACE")
		for _, blk := range blocks[1:] {
			total++
			// the two access stacks are the first two paragraphs
			paras := strings.Split(blk, "\n\n")
			var tops []string
			var inRepo [2]bool
			harness := false
			for pi, para := range paras {
				if pi > 1 {
					break
				}
				top := ""
				for _, line := range strings.Split(para, "\n") {
					t := strings.TrimSpace(line)
					if strings.HasPrefix(t, "github.com/PowerDNS/lightningstream/") {
						if top == "" {
							top = strings.TrimPrefix(t, "github.com/PowerDNS/lightningstream/")
							if i := strings.LastIndex(top, "("); i > 0 {
								top = top[:i]
							}
							inRepo[pi] = true
						}
					}
					if strings.HasPrefix(t, "verif/") && top == "" {
						harness = true
						top = "harness:" + t
						if i := strings.LastIndex(top, "("); i > 0 {
							top = top[:i]
						}
					}
				}
				if top == "" {
					top = "other"
				}
				tops = append(tops, top)
			}
			sort.Strings(tops)
			sig := strings.Join(tops, "|")
			if _, ok := seen[sig]; !ok {
				txt := blk
				if len(txt) > 4000 {
					txt = txt[:4000]
				}
				seen[sig] = report{sig: sig, text: txt, repo: inRepo, harn: harness}
			}
		}
	}
	a.Obs["race_reports_total"] = int64(total)
	a.Obs["race_reports_distinct"] = int64(len(seen))
	for sig, rp := range seen {
		c := runner.Case{ID: "race/" + sig, Family: "race"}
		if rp.repo[0] && rp.repo[1] && !rp.harn {
			a.Violations = append(a.Violations, runner.Violation{Case: c, Sig: "data-race:" + sig, Msg: "the race detector reported a data race with both accesses in repository code: " + sig, Witness: map[string]any{"report": rp.text}})
		} else {
			a.Violations = append(a.Violations, runner.Violation{Case: c, Sig: "harness-race:" + sig, Msg: "race report involving harness code (the check is broken, not the repository): " + sig, Witness: map[string]any{"report": rp.text}})
		}
	}
}

// ---------------------------------------------------------------- fleet under the race detector

func runRaceFleet(p c17Params, env *runner.Env, res *runner.Result) {
	r := rng.New(p.Seed)
	b := bucket.New()
	hr := r.Derive(9)
	var hmu sync.Mutex
	b.SetHook(func(op, name string, nth int) bucket.Decision {
		hmu.Lock()
		defer hmu.Unlock()
		if hr.Chance(1, 15) {
			return bucket.Decision{Err: bucket.ErrInjected}
		}
		return bucket.Decision{}
	})
	s := sched.New()
	defer s.Close()
	var dctr uint64
	s.Delay = func(in, point string) {
		n := atomic.AddUint64(&dctr, 0x9E3779B97F4A7C15)
		switch (n >> 33) % 4 {
		case 0:
			runtime.Gosched()
		case 1:
			time.Sleep(time.Duration((n>>40)%500) * time.Microsecond)
		}
	}
	// a silent stale instance so that cleaners consult the committed times
	ts := time.Now().Add(-time.Hour)
	xs := &wire.Snap{FormatVersion: 3, CompatVersion: 1, Meta: wire.Meta{DatabaseName: "db", InstanceID: "x", GenerationID: "GX", TimestampNano: uint64(ts.UnixNano())},
		DBIs: []wire.DBI{{Name: "d", Entries: []wire.KV{{Key: []byte("xk"), Val: []byte("v"), TS: uint64(ts.UnixNano())}}}}}
	b.Put(snapshot.Name("db", "x", "GX", ts), wire.Gzip(wire.EncodeSnapshot(xs)))
	n := 2 + r.Intn(3)
	ctx, cancel := context.WithCancel(context.Background())
	// undecodable blobs of several instances, with more arriving during the run: the downloaders mark them corrupt
	// while the receiver walks its listings
	for ci := 0; ci < 4; ci++ {
		b.Put(snapshot.Name("db", fmt.Sprintf("c%d", ci), "GX", ts.Add(time.Duration(ci)*time.Second)), []byte("not a gzip stream"))
	}
	cr := r.Derive(991)
	go func() {
		for k := 0; ; k++ {
			select {
			case <-ctx.Done():
				return
			case <-time.After(time.Duration(500+cr.Intn(2500)) * time.Microsecond):
			}
			b.Put(snapshot.Name("db", fmt.Sprintf("c%d", cr.Intn(4)), "GX", ts.Add(time.Minute+time.Duration(k)*time.Second)), []byte("still not a gzip stream"))
		}
	}()
	var insts []*inst.Inst
	var loops []*sched.Loop
	var subWG sync.WaitGroup
	var delivered, subErrors, subCloses int64
	var allReturnedFlag atomic.Bool
	allReturnedFlag.Store(true)
	for i := 0; i < n; i++ {
		conf := lsx.FastConfig(fmt.Sprintf("i%d", i))
		conf.Storage.Cleanup = config.Cleanup{Enabled: true, Interval: time.Millisecond, MustKeepInterval: 0, RemoveOldInstancesInterval: time.Nanosecond}
		conf.Sweeper = config.Sweeper{Enabled: p.Native, RetentionDays: 1, Interval: 2 * time.Millisecond, FirstInterval: time.Millisecond, LockDuration: time.Millisecond, ReleaseDuration: 100 * time.Microsecond}
		conf.StorageRetryCount = 1000
		conf.LMDBLogStatsInterval = 3 * time.Millisecond
		ev := events.New()
		x, err := inst.New(env.Dir(fmt.Sprintf("race%d", i)), b, "db", fmt.Sprintf("i%d", i), inst.Opt{Native: p.Native, Conf: &conf, Options: syncer.Options{Events: ev}})
		if err != nil {
			cancel()
			res.Verdict, res.Msg = runner.Inconclusive, err.Error()
			return
		}
		_ = allReturnedFlag.Load // the environments are never closed here (see runCancel)
		loopp.AppPut(x, s, "init", "v")
		insts = append(insts, x)
		// subscribers
		sr := r.Derive(uint64(100 + i))
		for k := 0; k < 3; k++ {
			subWG.Add(1)
			failAt := int64(1 + sr.Intn(6))
			go func() {
				defer subWG.Done()
				for ctx.Err() == nil {
					var seenN int64
					err := ev.UpdateLoaded.Handle(ctx, func(u events.UpdateInfo) error {
						atomic.AddInt64(&delivered, 1)
						seenN++
						if seenN >= failAt {
							return fmt.Errorf("subscriber gives up")
						}
						return nil
					})
					if err != nil && ctx.Err() == nil {
						atomic.AddInt64(&subErrors, 1)
					}
				}
			}()
		}
		subWG.Add(2)
		go func() { // raw subscription closed at random moments
			defer subWG.Done()
			for ctx.Err() == nil {
				sub := ev.UpdateStored.Subscribe(false)
				deadline := time.After(time.Duration(sr.Intn(3000)) * time.Microsecond)
				select {
				case <-sub.Channel():
					atomic.AddInt64(&delivered, 1)
				case <-deadline:
				case <-ctx.Done():
				}
				sub.Close()
				atomic.AddInt64(&subCloses, 1)
			}
		}()
		go func() { // a consumer of listings
			defer subWG.Done()
			_ = ev.List.Handle(ctx, func(bl simpleblob.BlobList) error { _ = bl.Names(); return nil })
		}()
	}
	for _, x := range insts {
		loops = append(loops, sched.Start(x, s))
	}
	// application writers
	var wwg sync.WaitGroup
	for i, x := range insts {
		wwg.Add(1)
		wr := r.Derive(uint64(200 + i))
		go func(x *inst.Inst) {
			defer wwg.Done()
			for k := 0; k < 25; k++ {
				loopp.AppPut(x, s, fmt.Sprintf("k%d", wr.Intn(5)), fmt.Sprintf("%s-%d", x.Name, k))
				time.Sleep(time.Duration(wr.Intn(4000)) * time.Microsecond)
			}
		}(x)
	}
	wwg.Wait()
	time.Sleep(60 * time.Millisecond)
	// liveness probe before the shutdown: a valid snapshot of a new instance must still get through to every sync
	// loop - downloaders wedged on a leaked token or lock would show here (bounded in loop iterations)
	{
		lts := time.Now()
		ls := &wire.Snap{FormatVersion: 3, CompatVersion: 1, Meta: wire.Meta{DatabaseName: "db", InstanceID: "zlate", GenerationID: "GX", TimestampNano: uint64(lts.UnixNano())},
			DBIs: []wire.DBI{{Name: "d", Entries: []wire.KV{{Key: []byte("zlate"), Val: []byte("v"), TS: uint64(lts.UnixNano())}}}}}
		lname := snapshot.Name("db", "zlate", "GX", lts)
		b.Put(lname, wire.Gzip(wire.EncodeSnapshot(ls)))
		from := s.Len()
		wdog := time.Now().Add(60 * time.Second)
		for {
			all, over := true, true
			for _, x := range insts {
				// by whatever path: the blob itself, or the snapshot of a peer that merged it (the cleaners of this
				// fleet remove a foreign blob as soon as one instance has merged and re-published it)
				have := s.Loaded(x.Name, lname, from)
				if !have {
					if st, err := x.Logical(); err == nil {
						_, have = st["d"]["zlate"]
					}
				}
				if !have {
					all = false
				}
				if s.Count(x.Name, "loop.end", from) < 1500 {
					over = false
				}
			}
			if all {
				res.Count("liveness_probes_delivered", 1)
				break
			}
			if over {
				res.Violate("downloaders-wedged", fmt.Sprintf("a valid snapshot of a new instance (%s) did not reach every instance (neither directly nor through a peer's snapshot) within 1500 loop iterations after undecodable blobs had been arriving: downloaders no longer make progress", lname), map[string]any{"goroutines": goroutineDump(80000), "events_tail": s.Tail(60), "names": len(b.Names())})
				break
			}
			if time.Now().After(wdog) {
				break // starved machine: no verdict from the probe
			}
			time.Sleep(2 * time.Millisecond)
		}
	}
	evAtCancel := s.Len()
	cancel()
	for _, l := range loops {
		l.Cancel()
	}
	t0 := time.Now()
	allReturned := true
	progress := func() int64 {
		return int64(s.Len()) + int64(len(b.Log()))
	}
	for _, l := range loops {
		l := l
		ok, why, inc := waitOrWedged(l.Done(), []string{"syncer.(*Syncer).syncLoop", "syncer.(*Syncer).Sync("}, progress, func() string {
			// an iteration that was in flight may complete; starting a fourth one after the cancel is running on
			if c := s.Count(l.I.Name, "loop.top", evAtCancel); c > 3 {
				return fmt.Sprintf("%d further loop iterations were started after the cancellation", c)
			}
			return ""
		})
		if inc {
			res.Verdict, res.Msg = runner.Inconclusive, "a Sync of the fleet did not return within the watchdog but is runnable (starved)"
			return
		}
		if !ok {
			allReturned = false
			allReturnedFlag.Store(false)
			res.Violate("sync-did-not-return-after-cancel", fmt.Sprintf("Sync of %s did not return after cancellation (fleet): %s", l.I.Name, why), map[string]any{"goroutines": goroutineDump(8000)})
		}
	}
	subDone := make(chan struct{})
	go func() { subWG.Wait(); close(subDone) }()
	if ok, why, inc := waitOrWedged(subDone, []string{"utils/topics", "concp.runFleet.func"}, func() int64 { return atomic.LoadInt64(&delivered) + atomic.LoadInt64(&subCloses) }, nil); inc {
		res.Verdict, res.Msg = runner.Inconclusive, "event subscribers did not finish within the watchdog but are runnable (starved)"
		return
	} else if !ok {
		res.Violate("subscriber-blocked", "event subscribers did not finish after cancellation: "+why, map[string]any{"goroutines": goroutineDump(12000)})
	}
	res.Count("race_fleets", 1)
	res.Count("fleet_instances", int64(n))
	res.Count("events_delivered_to_subscribers", atomic.LoadInt64(&delivered))
	res.Count("subscriber_callback_failures", atomic.LoadInt64(&subErrors))
	res.Count("subscription_closes", atomic.LoadInt64(&subCloses))
	res.Count("yield_events", int64(s.Len()))
	res.NonTrivial = allReturned && atomic.LoadInt64(&delivered) > 0
	res.Sample = map[string]any{"params": p, "instances": n, "yield_events": s.Len(), "delivered": delivered, "stop_ms": time.Since(t0).Milliseconds()}
}

func goroutineDump(max int) string {
	buf := make([]byte, 1<<20)
	n := runtime.Stack(buf, true)
	s := string(buf[:n])
	// keep goroutines that are in repository code
	var keep []string
	for _, g := range strings.Split(s, "\n\n") {
		if strings.Contains(g, "github.com/PowerDNS/lightningstream/") {
			keep = append(keep, g)
		}
	}
	out := strings.Join(keep, "\n\n")
	if len(out) > max {
		out = out[:max]
	}
	return out
}

// repoGoroutines counts goroutines with a frame in repository code, by innermost repository function.
func repoGoroutines() map[string]int {
	buf := make([]byte, 1<<20)
	n := runtime.Stack(buf, true)
	out := map[string]int{}
	for _, g := range strings.Split(string(buf[:n]), "\n\n") {
		for _, line := range strings.Split(g, "\n") {
			if strings.HasPrefix(line, "github.com/PowerDNS/lightningstream/") {
				f := strings.TrimPrefix(line, "github.com/PowerDNS/lightningstream/")
				if i := strings.LastIndex(f, "("); i > 0 {
					f = f[:i]
				}
				out[f]++
				break
			}
		}
	}
	return out
}

// ---------------------------------------------------------------- cancellation

func runCancel(p c17Params, env *runner.Env, res *runner.Result) {
	r := rng.New(p.Seed)
	b := bucket.New()
	b.CtxAware = strings.HasPrefix(p.Sub, "ctx-aware")
	listFails := p.Point == "startup.list_failed" || strings.HasSuffix(p.Sub, "list-fails")
	var failList int32
	if listFails {
		failList = 1
	}
	storeFailsForever := strings.HasSuffix(p.Sub, "store-fails-forever")
	var storeCalls int32
	b.SetHook(func(op, name string, nth int) bucket.Decision {
		if op == "List" && atomic.LoadInt32(&failList) == 1 {
			return bucket.Decision{Err: bucket.ErrInjected}
		}
		if op == "Store" && storeFailsForever {
			atomic.AddInt32(&storeCalls, 1)
			return bucket.Decision{Err: bucket.ErrInjected}
		}
		return bucket.Decision{}
	})
	s := sched.New()
	defer s.Close()
	// remote snapshot so that load points are reached
	ts := time.Now().Add(-time.Minute)
	rs := &wire.Snap{FormatVersion: 3, CompatVersion: 1, Meta: wire.Meta{DatabaseName: "db", InstanceID: "r", GenerationID: "GX", TimestampNano: uint64(ts.UnixNano())},
		DBIs: []wire.DBI{{Name: "d", Entries: []wire.KV{{Key: []byte("rk"), Val: []byte("v"), TS: uint64(ts.UnixNano())}}}}}
	conf := lsx.FastConfig("a")
	conf.Storage.Cleanup = config.Cleanup{Enabled: true, Interval: time.Millisecond, MustKeepInterval: time.Hour, RemoveOldInstancesInterval: time.Hour}
	conf.Sweeper = config.Sweeper{Enabled: p.Native, RetentionDays: 1, Interval: time.Millisecond, FirstInterval: time.Millisecond, LockDuration: time.Millisecond, ReleaseDuration: time.Millisecond}
	if storeFailsForever {
		conf.StorageRetryForever = true
	}
	x, err := inst.New(env.Dir("cancel"), b, "db", "a", inst.Opt{Native: p.Native, Conf: &conf})
	if err != nil {
		res.Verdict, res.Msg = runner.Inconclusive, err.Error()
		return
	}
	// The environment is never closed in this check: the statement only promises that the sync loop returns; helper
	// goroutines (stats logger, sweeper) of a returned Sync may still be inside LMDB calls for a moment, and closing
	// the environment under them is a crash of the harness's making. One process per case: the OS cleans up.
	loopp.AppPut(x, s, "init", "v")
	var loop *sched.Loop
	var loopPtr atomic.Pointer[sched.Loop]
	fired := int32(0)
	cancelNow := func() {
		for loopPtr.Load() == nil {
			runtime.Gosched()
		}
		atomic.StoreInt32(&fired, 1)
		loopPtr.Load().Cancel()
	}
	if p.Point != "" {
		s.ArmAt("a", p.Point, p.Nth, func(ev sched.Event) { cancelNow() })
	}
	loop = sched.Start(x, s)
	loopPtr.Store(loop)
	if p.Point == "" {
		// random instant
		delay := time.Duration(r.Intn(30000)) * time.Microsecond
		go func() {
			time.Sleep(delay)
			if storeFailsForever {
				// cancel while the upload is being retried
				for k := 0; k < 5000 && atomic.LoadInt32(&storeCalls) < 2; k++ {
					time.Sleep(200 * time.Microsecond)
				}
			}
			cancelNow()
		}()
	}
	// activity: staged snapshot and an application write
	time.Sleep(time.Duration(r.Intn(2000)) * time.Microsecond)
	b.Put(snapshot.Name("db", "r", "GX", ts), wire.Gzip(wire.EncodeSnapshot(rs)))
	loopp.AppPut(x, s, "w", "v")
	// wait for the cancel to fire (bounded by loop iterations), then for Sync to return
	deadline := time.Now().Add(15 * time.Second)
	for atomic.LoadInt32(&fired) == 0 && time.Now().Before(deadline) && s.Count("a", "loop.end", 0) < 300 {
		if _, _, fin := loop.Result(); fin {
			break
		}
		time.Sleep(300 * time.Microsecond)
	}
	if atomic.LoadInt32(&fired) == 0 {
		loop.Stop(10 * time.Second)
		res.Count("cancel_point_not_reached", 1)
		return
	}
	evAtCancel := s.Len()
	callsAtCancel := len(b.Log())
	// Sync must return. Verdict in logical steps: more than 40 further yield events or 200 further bucket calls of
	// a cancelled instance mean that a loop keeps running; no activity at all with the loop goroutine blocked (not
	// runnable) in two dumps means it is wedged. A runnable but slow goroutine is waited for (watchdog: inconclusive).
	watchdog := time.Now().Add(90 * time.Second)
	returned := false
	why := ""
	for !returned && why == "" {
		select {
		case <-loop.Done():
			returned = true
			continue
		case <-time.After(50 * time.Millisecond):
		}
		ny, nc := s.Len()-evAtCancel, len(b.Log())-callsAtCancel
		switch {
		case ny > 40:
			why = fmt.Sprintf("%d further yield events happened after the cancel: the loop keeps running", ny)
		case nc > 200:
			why = fmt.Sprintf("%d further bucket calls happened after the cancel: a retry loop keeps running", nc)
		default:
			b1, r1, _ := actorStates("syncer.(*Syncer).syncLoop", "syncer.(*Syncer).Sync(")
			if b1 > 0 && r1 == 0 {
				time.Sleep(1500 * time.Millisecond) // longer than the 1 s retry sleep of the start-up listing loop
				select {
				case <-loop.Done():
					returned = true
					continue
				default:
				}
				b2, r2, _ := actorStates("syncer.(*Syncer).syncLoop", "syncer.(*Syncer).Sync(")
				if b2 > 0 && r2 == 0 && s.Len()-evAtCancel == ny && len(b.Log())-callsAtCancel == nc {
					why = "the sync loop goroutine is blocked (not runnable) with its context cancelled and nothing happens any more"
				}
			}
		}
		if why == "" && !returned && time.Now().After(watchdog) {

			res.Verdict, res.Msg = runner.Inconclusive, "Sync did not return within the watchdog but its goroutine is runnable (starved)"
			return
		}
	}
	if !returned {

		sig := "sync-did-not-return-after-cancel"
		if listFails {
			sig = "startup-listing-ignores-cancel"
		}
		res.Violate(sig, fmt.Sprintf("Sync did not return after its context was cancelled at %q (bucket %s, list failing=%v): %s", p.Point, p.Sub, listFails, why),
			map[string]any{"params": p, "goroutines": goroutineDump(8000), "events_tail": s.Tail(30)})
		return
	}
	res.Count("cancellations", 1)
	res.Add("cancel_points_fired", p.Point)
	res.Add("yields_after_cancel", fmt.Sprint(s.Len()-evAtCancel))
	// leftover goroutines in repository code: observations
	time.Sleep(5 * time.Millisecond)
	for f, n := range repoGoroutines() {
		if strings.HasPrefix(f, "verif/") {
			continue
		}
		res.Add("leftover_repo_goroutines", f)
		_ = n
	}
	res.NonTrivial = true
	res.Sample = map[string]any{"params": p, "yields_after_cancel": s.Len() - evAtCancel}
}

// ---------------------------------------------------------------- topics (closed system)

func runTopics(p c17Params, res *runner.Result) {
	r := rng.New(p.Seed)
	for it := 0; it < p.Count; it++ {
		t := topics.New[int]()
		npub := 1 + r.Intn(3)
		nval := 3 + r.Intn(8)
		type actor struct {
			name string
			done chan struct{}
		}
		var actors []actor
		var pubPanics int32
		var closeDuringPublish int32
		ctx, cancel := context.WithCancel(context.Background())
		mode := []string{"handle-fail", "raw-close-before", "raw-close-while", "raw-close-after", "mixed"}[it%5]
		start := make(chan struct{})
		// subscribers
		nsub := 1 + r.Intn(3)
		var published int32
		for i := 0; i < nsub; i++ {
			a := actor{name: fmt.Sprintf("sub%d(%s)", i, mode), done: make(chan struct{})}
			actors = append(actors, a)
			m := mode
			if m == "mixed" {
				m = []string{"handle-fail", "raw-close-before", "raw-close-while", "raw-close-after"}[r.Intn(4)]
			}
			failAt := 1 + r.Intn(3)
			switch m {
			case "handle-fail":
				sub := t.Subscribe(false)
				go func() {
					defer close(a.done)
					defer sub.Close()
					<-start
					n := 0
					for {
						_, err := sub.Next(ctx)
						if err != nil {
							return
						}
						n++
						if n >= failAt {
							return // the callback fails: Close runs while publishers may be sending to us
						}
					}
				}()
			case "raw-close-before":
				sub := t.Subscribe(false)
				go func() {
					defer close(a.done)
					<-start
					sub.Close()
					sub.Close()
				}()
			case "raw-close-while":
				sub := t.Subscribe(false)
				go func() {
					defer close(a.done)
					<-start
					select {
					case _, ok := <-sub.Channel():
						if !ok {
							return
						}
					case <-ctx.Done():
						return
					}
					// we received one value; the publishers are (about to be) blocked sending the next one to
					// us: close from another goroutine while that publish is in flight
					closed := make(chan struct{})
					go func() {
						// wait until another publish was started after our receive
						p0 := atomic.LoadInt32(&published)
						for k := 0; k < 2000 && atomic.LoadInt32(&published) == p0 && ctx.Err() == nil; k++ {
							time.Sleep(50 * time.Microsecond)
						}
						atomic.AddInt32(&closeDuringPublish, 1)
						sub.Close()
						close(closed)
					}()
					<-closed
				}()
			case "raw-close-after":
				sub := t.Subscribe(r.Bool())
				go func() {
					defer close(a.done)
					<-start
					for {
						select {
						case _, ok := <-sub.Channel():
							if !ok {
								return
							}
						case <-ctx.Done():
							sub.Close()
							return
						}
					}
				}()
			}
		}
		// publishers
		var pwg sync.WaitGroup
		for i := 0; i < npub; i++ {
			a := actor{name: fmt.Sprintf("pub%d", i), done: make(chan struct{})}
			actors = append(actors, a)
			pwg.Add(1)
			go func(i int) {
				defer close(a.done)
				defer pwg.Done()
				defer func() {
					if e := recover(); e != nil {
						atomic.AddInt32(&pubPanics, 1)
					}
				}()
				<-start
				for v := 0; v < nval; v++ {
					atomic.AddInt32(&published, 1)
					t.Publish(i*1000 + v)
				}
			}(i)
		}
		close(start)
		// when all publishers are done the remaining subscribers are released
		go func() { pwg.Wait(); cancel() }()
		// Verdict without a wall-clock deadline: the system has no timers, so it is deadlocked iff every actor that
		// has not finished is blocked (not runnable) in two dumps 300 ms apart while the progress counter stands
		// still. A starved but live system keeps runnable goroutines and is waited for (watchdog: inconclusive).
		blocked := []string{}
		remaining := func() []string {
			var r []string
			for _, a := range actors {
				select {
				case <-a.done:
				default:
					r = append(r, a.name)
				}
			}
			return r
		}
		watchdog := time.Now().Add(90 * time.Second)
		var dump string
		for {
			rem := remaining()
			if len(rem) == 0 {
				break
			}
			time.Sleep(20 * time.Millisecond)
			if len(remaining()) == 0 {
				break
			}
			p0 := atomic.LoadInt32(&published)
			b1, r1, _ := actorStates("utils/topics", "concp.runTopics")
			if r1 == 0 && b1 > 0 {
				time.Sleep(300 * time.Millisecond)
				b2, r2, d2 := actorStates("utils/topics", "concp.runTopics")
				if r2 == 0 && b2 > 0 && atomic.LoadInt32(&published) == p0 && len(remaining()) > 0 {
					blocked = remaining()
					dump = d2
					break
				}
			}
			if time.Now().After(watchdog) {
				res.Verdict, res.Msg = runner.Inconclusive, fmt.Sprintf("topic system did not finish within the watchdog but goroutines are runnable (starved): %v", remaining())
				cancel()
				return
			}
		}
		cancel()
		res.Count("topic_systems", 1)
		res.Add("topic_modes", mode)
		if atomic.LoadInt32(&closeDuringPublish) > 0 {
			res.Count("closes_during_publish", int64(atomic.LoadInt32(&closeDuringPublish)))
			res.NonTrivial = true
		}
		if mode == "handle-fail" {
			res.NonTrivial = true
		}
		if len(blocked) > 0 {
			res.Violate("topic-close-during-publish", fmt.Sprintf("topic system (%s, %d publishers x %d values, %d subscribers) is deadlocked: every remaining actor is blocked in two consecutive goroutine dumps and nothing was published in between: %v", mode, npub, nval, nsub, blocked),
				map[string]any{"params": p, "iteration": it, "goroutines": dump})
			return
		}
		if n := atomic.LoadInt32(&pubPanics); n > 0 {
			res.Violate("topic-publish-panic", fmt.Sprintf("topic system (%s): %d publishers panicked (send on a closed subscription channel)", mode, n), map[string]any{"params": p, "iteration": it})
			return
		}
	}
	if !runTopicsConcurrentClose(p, r, res) {
		return
	}
	res.Sample = map[string]any{"params": p, "systems": p.Count}
}

// runTopicsConcurrentClose: "Close can safely be called multiple times, even from different goroutines" - also while
// the first Close is parked behind a publish that is in flight to another, slow subscriber. Two subscribers a and b; one
// publish is started and is blocked sending (to a or to b, map order); 2-4 goroutines call a.Close() at once; b starts
// receiving only after all of them were launched and given a moment. A panic in any Close (close of a closed channel,
// close of a nil channel) is the violation; an actor that never finishes makes the case inconclusive here (the closed
// systems above judge deadlocks).
func runTopicsConcurrentClose(p c17Params, r *rng.R, res *runner.Result) bool {
	for it := 0; it < 2*p.Count; it++ {
		t := topics.New[int]()
		a := t.Subscribe(false)
		b := t.Subscribe(it%3 == 2)
		nclose := 2 + r.Intn(3)
		pause := time.Duration(50+r.Intn(2000)) * time.Microsecond
		var started, panics int32
		var firstPanic atomic.Value
		pubStarted := make(chan struct{})
		pubDone := make(chan struct{})
		go func() {
			defer close(pubDone)
			close(pubStarted)
			t.Publish(1)
			t.Publish(2)
		}()
		<-pubStarted
		time.Sleep(pause / 4) // let the publisher reach its send
		var cwg sync.WaitGroup
		for i := 0; i < nclose; i++ {
			cwg.Add(1)
			go func() {
				defer cwg.Done()
				defer func() {
					if e := recover(); e != nil {
						atomic.AddInt32(&panics, 1)
						firstPanic.CompareAndSwap(nil, fmt.Sprint(e))
					}
				}()
				atomic.AddInt32(&started, 1)
				a.Close()
			}()
		}
		bDone := make(chan struct{})
		go func() {
			defer close(bDone)
			for atomic.LoadInt32(&started) < int32(nclose) {
				time.Sleep(20 * time.Microsecond)
			}
			time.Sleep(pause) // the closers are now inside Close, the first one parked behind the publish to us
			for range b.Channel() {
			}
		}()
		fin := make(chan struct{})
		go func() { cwg.Wait(); <-pubDone; b.Close(); <-bDone; close(fin) }()
		select {
		case <-fin:
		case <-time.After(60 * time.Second):
			res.Verdict, res.Msg = runner.Inconclusive, "concurrent-close system did not finish within the watchdog"
			return false
		}
		res.Count("concurrent_close_systems", 1)
		res.Count("concurrent_closes", int64(nclose))
		res.NonTrivial = true
		if n := atomic.LoadInt32(&panics); n > 0 {
			res.Violate("subscription-close-panic", fmt.Sprintf("%d of %d concurrent Close calls of one subscription panicked while a publish to another subscriber was in flight: %v", n, nclose, firstPanic.Load()),
				map[string]any{"params": p, "iteration": it, "closers": nclose})
			return false
		}
	}
	return true
}

// ---------------------------------------------------------------- global storage (one process per trial)

func runStorage(p c17Params, res *runner.Result) {
	r := rng.New(p.Seed)
	st1, st2 := bucket.New(), bucket.New()
	k := 1 + r.Intn(6)
	type out struct {
		h     simpleblob.Interface
		panic any
	}
	results := make(chan out, 32)
	get := func() {
		defer func() {
			if e := recover(); e != nil {
				results <- out{panic: e}
			}
		}()
		results <- out{h: storage.GetGlobal()}
	}
	started := 0
	startGetters := func(n int) {
		for i := 0; i < n; i++ {
			go get()
			started++
		}
	}
	switch p.Sub {
	case "before":
		startGetters(k)
		time.Sleep(time.Duration(1+r.Intn(20)) * time.Millisecond)
		storage.SetGlobal(st1)
	case "before-long":
		startGetters(k)
		time.Sleep(10*time.Second + time.Duration(300+r.Intn(700))*time.Millisecond)
		storage.SetGlobal(st1)
	case "concurrent":
		go storage.SetGlobal(st1)
		startGetters(k)
	case "after":
		storage.SetGlobal(st1)
		startGetters(k)
	case "before-two-sets":
		startGetters(k)
		time.Sleep(time.Duration(1+r.Intn(10)) * time.Millisecond)
		storage.SetGlobal(st1)
		storage.SetGlobal(st2)
		startGetters(2)
	case "mixed":
		startGetters(k)
		go func() {
			time.Sleep(time.Duration(r.Intn(5)) * time.Millisecond)
			storage.SetGlobal(st1)
		}()
		startGetters(k)
		time.Sleep(10 * time.Millisecond)
		startGetters(1)
	}
	res.Count("storage_trials", 1)
	res.Add("storage_orders", p.Sub)
	timeout := time.After(5 * time.Second)
	for i := 0; i < started; i++ {
		select {
		case o := <-results:
			if o.panic != nil {
				res.Violate("getglobal-inverted-nil-check", fmt.Sprintf("GetGlobal panicked (%v) in order %q", o.panic, p.Sub), map[string]any{"params": p})
				return
			}
			if o.h != simpleblob.Interface(st1) && o.h != simpleblob.Interface(st2) {
				res.Violate("getglobal-wrong-handle", fmt.Sprintf("GetGlobal returned %v, not a handle that was set (order %q)", o.h, p.Sub), map[string]any{"params": p})
				return
			}
		case <-timeout:
			res.Violate("getglobal-blocked", fmt.Sprintf("a GetGlobal caller is still blocked 5 s after SetGlobal (order %q)", p.Sub), map[string]any{"params": p, "goroutines": goroutineDump(4000)})
			return
		}
	}
	if !storage.IsReady() {
		res.Violate("isready-false-after-set", "IsReady() is false after SetGlobal", nil)
	}
	res.Count("getters", int64(started))
	res.NonTrivial = p.Sub != "after"
	res.Sample = map[string]any{"params": p, "getters": started}
}

// ---------------------------------------------------------------- tokens

func runTokens(p c17Params, res *runner.Result) {
	limit := 1 + int(p.Seed%3)
	cl := climit.New(recvx.UniqueDB("c17tok"), "tokens", limit, nil)
	var panics int32
	for round := 0; round < p.Count; round++ {
		tok := cl.Acquire()
		var wg sync.WaitGroup
		start := make(chan struct{})
		for g := 0; g < 4; g++ {
			wg.Add(1)
			go func() {
				defer wg.Done()
				defer func() {
					if e := recover(); e != nil {
						atomic.AddInt32(&panics, 1)
					}
				}()
				<-start
				tok.Release()
				tok.Release()
			}()
		}
		close(start)
		done := make(chan struct{})
		go func() { wg.Wait(); close(done) }()
		select {
		case <-done:
		case <-time.After(5 * time.Second):
			res.Violate("release-blocked", fmt.Sprintf("concurrent Release calls on one token blocked (round %d)", round), map[string]any{"goroutines": goroutineDump(4000)})
			return
		}
		if atomic.LoadInt32(&panics) > 0 {
			res.Violate("concurrent-release-panic", fmt.Sprintf("releasing one token from several goroutines panicked (round %d)", round), nil)
			return
		}
	}
	// the limit is intact: exactly `limit` acquires succeed without blocking
	got := make(chan *climit.Token, limit+1)
	for i := 0; i < limit+1; i++ {
		go func() { got <- cl.Acquire() }()
	}
	n := 0
	var toks []*climit.Token
	timeout := time.After(300 * time.Millisecond)
loop:
	for {
		select {
		case t := <-got:
			n++
			toks = append(toks, t)
		case <-timeout:
			break loop
		}
	}
	if n != limit {
		res.Violate("token-count-corrupted", fmt.Sprintf("after %d rounds of concurrent double releases %d acquires succeed at once, the limit is %d", p.Count, n, limit), nil)
	}
	for _, t := range toks {
		t.Release()
	}
	res.Count("token_rounds", int64(p.Count))
	res.NonTrivial = true
	res.Sample = map[string]any{"limit": limit, "rounds": p.Count}
}

// actorStates inspects a full goroutine dump: for goroutines whose stack contains one of the markers it returns
// how many are in a blocked state (channel operation, mutex, semaphore, select) and how many are runnable or
// running. A deadlock has every remaining actor blocked; a starved but live system has runnable ones.
func actorStates(markers ...string) (blocked, runnable int, dump string) {
	buf := make([]byte, 4<<20)
	n := runtime.Stack(buf, true)
	var keep []string
	for _, g := range strings.Split(string(buf[:n]), "\n\n") {
		hit := false
		for _, m := range markers {
			if strings.Contains(g, m) {
				hit = true
			}
		}
		if !hit || strings.Contains(g, "actorStates") {
			continue
		}
		keep = append(keep, g)
		hdr := g
		if i := strings.Index(g, "\n"); i > 0 {
			hdr = g[:i]
		}
		switch {
		case strings.Contains(hdr, "[runnable") || strings.Contains(hdr, "[running") || strings.Contains(hdr, "[sleep") || strings.Contains(hdr, "[syscall") || strings.Contains(hdr, "[GC "):
			runnable++
		default:
			blocked++
		}
	}
	dump = strings.Join(keep, "\n\n")
	if len(dump) > 12000 {
		dump = dump[:12000]
	}
	return
}

// waitOrWedged waits for done without a wall-clock verdict. It reports wedged when overrun() names a logical bound
// that was exceeded (the actors keep working although they were told to stop) or when every goroutine matching the markers is blocked (not
// runnable) in two dumps 1.5 s apart with progress() unchanged. A runnable but slow system is waited for; only the
// generous watchdog ends that wait, as inconclusive.
func waitOrWedged(done <-chan struct{}, markers []string, progress func() int64, overrun func() string) (ok bool, why string, inconclusive bool) {
	watchdog := time.Now().Add(90 * time.Second)
	for {
		select {
		case <-done:
			return true, "", false
		case <-time.After(50 * time.Millisecond):
		}
		p0 := progress()
		if overrun != nil {
			if w := overrun(); w != "" {
				return false, w, false
			}
		}
		b1, r1, _ := actorStates(markers...)
		if b1 > 0 && r1 == 0 {
			select {
			case <-done:
				return true, "", false
			case <-time.After(1500 * time.Millisecond):
			}
			b2, r2, _ := actorStates(markers...)
			if b2 > 0 && r2 == 0 && progress() == p0 {
				return false, "every remaining goroutine is blocked (none runnable) in two dumps 1.5 s apart and no step was taken in between", false
			}
		}
		if time.Now().After(watchdog) {
			return false, "", true
		}
	}
}
