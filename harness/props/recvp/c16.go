// Package recvp holds the monitor for C16: every instance's newest snapshot is
// eventually delivered, within the memory limits.
package recvp

import (
	"context"
	"fmt"
	"sync"
	"sync/atomic"
	"time"

	"github.com/anishathalye/porcupine"

	"github.com/PowerDNS/lightningstream/snapshot"
	"github.com/PowerDNS/lightningstream/utils/climit"

	"verif/bucket"
	"verif/inst"
	"verif/lsx"
	"verif/props/codec"
	"verif/recvx"
	"verif/rng"
	"verif/runner"
	"verif/sched"
	"verif/wire"
)

type c16Params struct {
	Part    string          `json:"part"` // receiver | runonce | climit
	Sc      *recvx.Scenario `json:"sc,omitempty"`
	Seed    uint64          `json:"seed,omitempty"`
	Native  bool            `json:"native,omitempty"`
	NInst   int             `json:"ninst,omitempty"`
	Own     bool            `json:"own,omitempty"`     // the own instance name has snapshots too
	Corrupt int             `json:"corrupt,omitempty"` // number of corrupt-only instances
	Cleaned bool            `json:"cleaned,omitempty"` // one instance is cleaned away during start-up
	Limit   int             `json:"limit,omitempty"`
}

func C16() *runner.Property {
	return &runner.Property{
		ID: "C16", Level: "exploration",
		Rule: "receiver: a real Receiver.Run (per-instance downloaders, both token limits) on an instrumented bucket with 1-12 instances x limits (1,1) (1,3) (2,1) (2,3) (3,3); bucket evolutions (instances appearing, publishing 1-5 snapshots, the newest replaced while the previous waits un-merged, blobs cleaned away between List and Load), fault scripts on List/Load (first k fail, every m-th fails), corrupt blobs at every position, Load latencies 0-5 ms, " +
			"a consumer that calls Next() fast, slowly, or holds updates before Close() (and closes twice). Oracles over the delivery log, the bucket log and the token gauges: after changes and faults stop every instance's newest decodable snapshot is returned by Next() within 1500 List cycles; never more Load calls in flight than memory_downloaded_snapshots; " +
			"with one valid blob per instance never more than downloaded+decompressed limits of snapshots are held between download and hand-over; after everything was delivered and closed both token gauges are 0 (no leak, superseded snapshots released); Run returns on cancel. " +
			"runonce: a real Sync with only_once on buckets with 0-6 instances incl. the own name, corrupt-only instances and an instance cleaned during start-up: Sync returns by itself, not before every start-up instance that is still present and decodable was merged (load.done) and not before its own upload. " +
			"climit: recorded Acquire/Release histories (double releases, releases from other goroutines) are checked with porcupine against a counting semaphore of the configured size. Non-trivial = >= 2 instances and (a fault fired or a limit was reached).",
		Assumptions: []string{"transient samples of the climit_active gauges may read limit+1 (the gauge is decremented after the token is returned): only quiescent gauge values are verdicts", "bounded progress: 1500 List cycles (1 ms poll) after the last change or fault"},
		BatchSize:   6, CaseTimeout: 120e9,
		MinNonTrivial: func(string) int { return 30 },
		Cases: func(tier string, seed int64) []runner.Case {
			r := rng.New(uint64(seed) ^ 0xC16)
			var cs []runner.Case
			n := 150
			if tier == "thorough" {
				n = 4000
			}
			limits := [][2]int{{1, 1}, {1, 3}, {2, 1}, {2, 3}, {3, 3}}
			for i := 0; i < n; i++ {
				lim := limits[i%len(limits)]
				sc := recvx.Scenario{Own: "self", DLimit: lim[0], ZLimit: lim[1], Consumer: rng.Pick(r, "fast", "slow", "hold"), Bound: 1500, LoadDelay: rng.Pick(r, 0, 0, 200, 1000, 5000)}
				ni := 1 + r.Intn(12)
				static := i%5 == 0
				for k := 0; k < ni; k++ {
					is := recvx.InstSpec{Name: fmt.Sprintf("i%d", k)}
					if static {
						is.Blobs = []recvx.BlobSpec{{Kind: "valid"}}
					} else {
						nb := 1 + r.Intn(5)
						at := 0
						for j := 0; j < nb; j++ {
							bs := recvx.BlobSpec{Kind: "valid"}
							if r.Chance(1, 6) {
								g := rng.Pick(r, "g1-gz", "g2-trunc", "g2-flip-pb", "g3-struct", "g3-tiny", "g4-gzip")
								idx := r.Intn(500)
								if g == "g4-gzip" {
									idx = r.Intn(40)
								}
								bs = recvx.BlobSpec{Kind: "hostile", Gen: g, Seed: r.U64(), Index: idx}
							}
							if j > 0 || r.Chance(1, 3) {
								at += r.Intn(6)
								bs.AtCycle = at
							}
							if r.Chance(1, 8) && j < nb-1 {
								bs.RemoveAtCycle = at + 1 + r.Intn(4) // cleaned away, possibly between List and Load
							}
							is.Blobs = append(is.Blobs, bs)
						}
					}
					sc.Insts = append(sc.Insts, is)
				}
				if static {
					sc.HeldBound = true
					sc.Consumer = rng.Pick(r, "slow", "hold", "slow")
				} else {
					switch r.Intn(4) {
					case 0:
						sc.Faults = []recvx.FaultSpec{{Op: "List", From: 1 + r.Intn(3), To: 3 + r.Intn(6)}}
					case 1:
						sc.Faults = []recvx.FaultSpec{{Op: "Load", From: 1, To: 2 + r.Intn(8)}}
					case 2:
						sc.Faults = []recvx.FaultSpec{{Op: "Load", From: 1, To: 30, Every: 2 + r.Intn(3)}, {Op: "List", From: 2, To: 12, Every: 3}}
					}
				}
				if r.Chance(1, 4) {
					sc.Insts = append(sc.Insts, recvx.InstSpec{Name: "self", Blobs: []recvx.BlobSpec{{Kind: "valid"}}})
				}
				cs = append(cs, runner.MkCase("receiver", fmt.Sprint(i), c16Params{Part: "receiver", Sc: &sc}))
			}
			// an instance whose only (undecodable or failing) snapshot vanishes and which publishes again a few List
			// cycles later, while its downloader is held at the "instance has no snapshots" branch
			nv := 24
			if tier == "thorough" {
				nv = 300
			}
			for i := 0; i < nv; i++ {
				gone := 2 + r.Intn(4)
				sc := recvx.Scenario{Own: "self", DLimit: 2, ZLimit: 2, Consumer: "fast", Bound: 1500, ParkOnVanish: 2 + r.Intn(5)}
				first := recvx.BlobSpec{Kind: "hostile", Gen: "g1-raw", Seed: r.U64(), Index: 1, RemoveAtCycle: gone}
				if i%2 == 1 {
					first = recvx.BlobSpec{Kind: "valid", RemoveAtCycle: gone}
					sc.Faults = []recvx.FaultSpec{{Op: "Load", From: 1, To: 40}}
				}
				sc.Insts = []recvx.InstSpec{
					{Name: "flaky", Blobs: []recvx.BlobSpec{first, {Kind: "valid", AtCycle: gone + 1 + r.Intn(4)}}},
					{Name: "steady", Blobs: []recvx.BlobSpec{{Kind: "valid"}}},
				}
				cs = append(cs, runner.MkCase("receiver-vanish-reappear", fmt.Sprint(i), c16Params{Part: "receiver", Sc: &sc}))
			}
			nr := 40
			if tier == "thorough" {
				nr = 400
			}
			for i := 0; i < nr; i++ {
				p := c16Params{Part: "runonce", Seed: r.U64(), Native: i%2 == 0, NInst: r.Intn(7), Own: i%3 == 0, Corrupt: rng.Pick(r, 0, 0, 1, 2), Cleaned: i%5 == 4}
				cs = append(cs, runner.MkCase("runonce", fmt.Sprintf("%d-native=%v-n%d-own=%v-corrupt%d-cleaned=%v", i, p.Native, p.NInst, p.Own, p.Corrupt, p.Cleaned), p))
			}
			nc := 12
			if tier == "thorough" {
				nc = 200
			}
			for i := 0; i < nc; i++ {
				cs = append(cs, runner.MkCase("climit", fmt.Sprint(i), c16Params{Part: "climit", Seed: r.U64(), Limit: 1 + i%4}))
			}
			return cs
		},
		Run: runC16,
	}
}

func hostile(gen string, seed uint64, index int) []byte { return codec.HostileBlob(gen, seed, index) }

func runC16(c runner.Case, env *runner.Env) (res runner.Result) {
	var p c16Params
	runner.Params(c, &p)
	res.Key = c.ID
	switch p.Part {
	case "receiver":
		p.Sc.DB = recvx.UniqueDB("c16db")
		out := recvx.Run(*p.Sc, hostile, 60*time.Second)
		codec.ApplyRecvOutcome(&res, c, *p.Sc, out)
		res.Add("max_held", fmt.Sprint(out.MaxHeld))
		res.NonTrivial = len(p.Sc.Insts) >= 2 && (out.FaultsFired > 0 || out.LimitReachedD || out.LimitReachedZ)
	case "runonce":
		runOnce(p, env, &res)
	case "climit":
		runClimit(p, &res)
	}
	return
}

// ---------------------------------------------------------------- run-once mode

func runOnce(p c16Params, env *runner.Env, res *runner.Result) {
	r := rng.New(p.Seed)
	b := bucket.New()
	s := sched.New()
	defer s.Close()
	base := time.Now().Add(-time.Hour)
	mustMerge := map[string]string{} // instance -> newest decodable blob present at start-up
	n := 0
	put := func(instName string, valid bool) string {
		n++
		ts := base.Add(time.Duration(n) * time.Second)
		name := snapshot.Name("db", instName, "GX", ts)
		if valid {
			ws := &wire.Snap{FormatVersion: 3, CompatVersion: 1, Meta: wire.Meta{DatabaseName: "db", InstanceID: instName, GenerationID: "GX", TimestampNano: uint64(ts.UnixNano())},
				DBIs: []wire.DBI{{Name: "d", Entries: []wire.KV{{Key: []byte("from-" + instName), Val: []byte(fmt.Sprint(n)), TS: uint64(ts.UnixNano())}}}}}
			b.Put(name, wire.Gzip(wire.EncodeSnapshot(ws)))
		} else {
			b.Put(name, hostile("g1-raw", r.U64(), 1))
		}
		return name
	}
	for i := 0; i < p.NInst; i++ {
		in := fmt.Sprintf("r%d", i)
		if r.Bool() {
			put(in, true)
		}
		mustMerge[in] = put(in, true)
		if r.Chance(1, 4) {
			put(in, false) // a corrupt blob on top: the older one is the newest decodable
		}
	}
	for i := 0; i < p.Corrupt; i++ {
		put(fmt.Sprintf("c%d", i), false)
	}
	if p.Own {
		mustMerge["a"] = put("a", true)
	}
	var cleanedInst string
	if p.Cleaned && p.NInst > 0 {
		cleanedInst = "r0"
	}
	conf := lsx.FastConfig("a")
	conf.OnlyOnce = true
	x, err := inst.New(env.Dir("c16ro"), b, "db", "a", inst.Opt{Native: p.Native, Conf: &conf})
	if err != nil {
		res.Verdict, res.Msg = runner.Inconclusive, err.Error()
		return
	}
	defer x.Close()
	hasData := r.Bool()
	if hasData {
		codec.AppPutPlain(x, "local", "v")
	}
	if cleanedInst != "" {
		// the instance's snapshots vanish right after the start-up listing, and its download is held until then
		var gone int32
		b.SetHook(func(op, name string, nth int) bucket.Decision {
			if op == "Load" && atomic.LoadInt32(&gone) == 0 {
				if ni, err := snapshot.ParseName(name); err == nil && ni.InstanceID == cleanedInst {
					for atomic.LoadInt32(&gone) == 0 {
						time.Sleep(200 * time.Microsecond)
					}
				}
			}
			return bucket.Decision{}
		})
		s.ArmAt("a", "startup.listed", 1, func(ev sched.Event) {
			for _, nme := range b.Names() {
				if ni, err := snapshot.ParseName(nme); err == nil && ni.InstanceID == cleanedInst {
					b.Remove(nme)
				}
			}
			atomic.StoreInt32(&gone, 1)
		})
		delete(mustMerge, cleanedInst)
	}
	loop := sched.Start(x, s)
	// logical bound: a run-once Sync that is still iterating after 3000 loop iterations (1 ms poll interval; a correct
	// run needs a few dozen) does not end by itself; the wall-clock watchdog only yields "inconclusive"
	wdog := time.Now().Add(120 * time.Second)
	for ended := false; !ended; {
		select {
		case <-loop.Done():
			ended = true
		case <-time.After(20 * time.Millisecond):
			if n := s.Count("a", "loop.end", 0); n > 3000 {
				loop.Stop(5 * time.Second)
				res.Violate("runonce-did-not-end", fmt.Sprintf("Sync with only_once is still running after %d loop iterations", n), map[string]any{"params": p, "events_tail": s.Tail(50), "names": b.Names()})
				return
			}
			if time.Now().After(wdog) {
				loop.Stop(5 * time.Second)
				res.Verdict, res.Msg = runner.Inconclusive, "run-once Sync neither ended nor reached the iteration bound within the watchdog"
				return
			}
		}
	}
	serr, crashed, _ := loop.Result()
	res.Count("runonce_scenarios", 1)
	wit := map[string]any{"params": p, "events_tail": s.Tail(50), "names": b.Names(), "must_merge": mustMerge}
	if serr != nil || crashed {
		res.Violate("runonce-ended-with-error", fmt.Sprintf("Sync (only_once) returned err=%v crashed=%v", serr, crashed), wit)
		return
	}
	for in, blob := range mustMerge {
		if !s.Loaded("a", blob, 0) {
			res.Violate("runonce-ended-early", fmt.Sprintf("Sync (only_once) returned before the newest decodable snapshot of %s (%s) was merged", in, blob), wit)
		}
	}
	// not before its own upload: if it had local data or merged anything, an own snapshot newer than start must exist
	if hasData {
		ownNew := false
		for _, e := range s.Events() {
			if e.Inst == "a" && e.Point == "send.after_store" {
				ownNew = true
			}
		}
		if !ownNew {
			res.Violate("runonce-ended-before-upload", "Sync (only_once) of an instance with local data returned without uploading a snapshot", wit)
		}
	}
	res.NonTrivial = p.NInst+p.Corrupt >= 1
	res.Sample = map[string]any{"params": p, "merged": len(mustMerge), "events": s.Len()}
}

// ---------------------------------------------------------------- climit histories (porcupine)

type semIn struct {
	Acquire bool
	Token   int
}

func runClimit(p c16Params, res *runner.Result) {
	r := rng.New(p.Seed)
	limit := p.Limit
	cl := climit.New(recvx.UniqueDB("c16sem"), "porcupine", limit, nil)
	var mu sync.Mutex
	var ops []porcupine.Operation
	var clock int64
	now := func() int64 { return atomic.AddInt64(&clock, 1) }
	type held struct {
		id  int
		tok *climit.Token
	}
	var hmu sync.Mutex
	var pool []held
	var nextID int32
	workers := 2 + r.Intn(5)
	var wg sync.WaitGroup
	var blockedReleases, pending int32
	// janitor: while an Acquire is pending, keep releasing pooled tokens (from yet another goroutine), so that
	// the workload itself can never deadlock: tokens out = pool size (+ hand-overs in transit)
	stopJanitor := make(chan struct{})
	janitorDone := make(chan struct{})
	go func() {
		defer close(janitorDone)
		for {
			select {
			case <-stopJanitor:
				return
			case <-time.After(2 * time.Millisecond):
			}
			if atomic.LoadInt32(&pending) == 0 {
				continue
			}
			hmu.Lock()
			if len(pool) == 0 {
				hmu.Unlock()
				continue
			}
			h := pool[0]
			pool = pool[1:]
			hmu.Unlock()
			c2 := now()
			h.tok.Release()
			mu.Lock()
			ops = append(ops, porcupine.Operation{ClientId: workers + 1, Input: semIn{false, h.id}, Call: c2, Output: true, Return: now()})
			mu.Unlock()
		}
	}()
	for w := 0; w < workers; w++ {
		wg.Add(1)
		wr := r.Derive(uint64(w + 1))
		go func(w int) {
			defer wg.Done()
			for i := 0; i < 30; i++ {
				switch wr.Intn(3) {
				case 0: // acquire (only if it cannot block forever: bounded by others releasing)
					hmu.Lock()
					n := len(pool)
					hmu.Unlock()
					if n >= limit+workers {
						continue
					}
					id := int(atomic.AddInt32(&nextID, 1))
					call := now()
					done := make(chan *climit.Token, 1)
					go func() { done <- cl.Acquire() }()
					atomic.AddInt32(&pending, 1)
					tok := <-done // the janitor below releases pooled tokens while acquires are pending
					atomic.AddInt32(&pending, -1)
					ret := now()
					mu.Lock()
					ops = append(ops, porcupine.Operation{ClientId: w, Input: semIn{true, id}, Call: call, Output: true, Return: ret})
					mu.Unlock()
					hmu.Lock()
					pool = append(pool, held{id, tok})
					hmu.Unlock()
				default: // release a token acquired by anybody, sometimes twice
					hmu.Lock()
					if len(pool) == 0 {
						hmu.Unlock()
						continue
					}
					k := wr.Intn(len(pool))
					h := pool[k]
					pool = append(pool[:k], pool[k+1:]...)
					hmu.Unlock()
					call := now()
					relDone := make(chan struct{})
					go func() {
						h.tok.Release()
						if wr.Chance(1, 3) {
							h.tok.Release() // double release must be harmless
						}
						close(relDone)
					}()
					select {
					case <-relDone:
					case <-time.After(20 * time.Second): // Release never waits for anybody: 20 s is a watchdog, not a measure
						atomic.AddInt32(&blockedReleases, 1)
						<-relDone
					}
					mu.Lock()
					ops = append(ops, porcupine.Operation{ClientId: w, Input: semIn{false, h.id}, Call: call, Output: true, Return: now()})
					mu.Unlock()
				}
			}
		}(w)
	}
	wg.Wait()
	close(stopJanitor)
	<-janitorDone
	// release the rest, twice, from this goroutine
	hmu.Lock()
	rest := pool
	pool = nil
	hmu.Unlock()
	for _, h := range rest {
		c := now()
		h.tok.Release()
		h.tok.Release()
		ops = append(ops, porcupine.Operation{ClientId: workers, Input: semIn{false, h.id}, Call: c, Output: true, Return: now()})
	}
	model := porcupine.Model{
		Init: func() interface{} { return 0 },
		Step: func(state, input, output interface{}) (bool, interface{}) {
			n := state.(int)
			in := input.(semIn)
			if in.Acquire {
				if n >= limit {
					return false, n // an acquire can only complete when a token is free
				}
				return true, n + 1
			}
			if n <= 0 {
				return false, n
			}
			return true, n - 1
		},
		Equal: func(a, b interface{}) bool { return a.(int) == b.(int) },
	}
	result, _ := porcupine.CheckOperationsVerbose(model, ops, 30*time.Second)
	res.Count("climit_histories", 1)
	res.Count("climit_operations", int64(len(ops)))
	switch result {
	case porcupine.Illegal:
		res.Violate("semaphore-history-not-linearizable", fmt.Sprintf("the recorded Acquire/Release history of a limit of %d (%d operations, %d workers) is not a history of a counting semaphore: more tokens were out than the limit, or a release was lost", limit, len(ops), workers), map[string]any{"limit": limit, "ops": len(ops)})
	case porcupine.Unknown:
		res.Verdict, res.Msg = runner.Inconclusive, "porcupine timed out"
		return
	}
	if n := atomic.LoadInt32(&blockedReleases); n > 0 {
		res.Violate("release-blocked", fmt.Sprintf("%d Release calls had not returned after 20 s", n), nil)
	}
	// all tokens back: limit acquires succeed without blocking
	done := make(chan struct{})
	go func() {
		var ts []*climit.Token
		for i := 0; i < limit; i++ {
			ts = append(ts, cl.Acquire())
		}
		for _, t := range ts {
			t.Release()
		}
		close(done)
	}()
	select {
	case <-done:
	case <-time.After(5 * time.Second):
		res.Violate("token-lost", fmt.Sprintf("after all tokens were released, %d acquires do not succeed any more (limit %d)", limit, limit), nil)
	}
	res.NonTrivial = true
	res.Sample = map[string]any{"limit": limit, "workers": workers, "operations": len(ops)}
}

var _ = context.Background
