// Package inst wraps one Lightning Stream instance for the harness: an LMDB
// environment, a real syncer.Syncer on an instrumented bucket, and the
// "application" that writes to the LMDB. Observations are made through own
// read transactions and the independent header reader.
package inst

import (
	"context"
	"fmt"
	"sort"
	"strings"
	"time"

	"github.com/PowerDNS/lmdb-go/lmdb"

	"github.com/PowerDNS/lightningstream/config"
	"github.com/PowerDNS/lightningstream/lmdbenv/header"
	"github.com/PowerDNS/lightningstream/snapshot"
	"github.com/PowerDNS/lightningstream/syncer"

	"verif/bucket"
	"verif/hdr"
	"verif/lmdbx"
	"verif/lsx"
	"verif/wire"
)

const ShadowPrefix = "_sync_shadow_"

type Opt struct {
	Native      bool
	Padding     bool
	DupSortHack bool
	MapSize     int64
	Conf        *config.Config // optional full override
	Options     syncer.Options
	DBIOptions  map[string]config.DBIOptions
}

type Inst struct {
	Name string
	DB   string
	Dir  string
	Env  *lmdb.Env
	S    *syncer.Syncer
	B    *bucket.B
	Opt  Opt
	Conf config.Config
	LC   config.LMDB
}

// New creates the environment in dir and a Syncer for it.
func New(dir string, b *bucket.B, db, name string, opt Opt) (*Inst, error) {
	lsx.Quiet()
	env, err := lmdbx.Open(dir, opt.MapSize)
	if err != nil {
		return nil, err
	}
	i := &Inst{Name: name, DB: db, Dir: dir, Env: env, B: b, Opt: opt}
	if err := i.NewSyncer(); err != nil {
		env.Close()
		return nil, err
	}
	return i, nil
}

// NewSyncer (re)creates the Syncer on the existing environment (a restart).
func (i *Inst) NewSyncer() error {
	conf := lsx.FastConfig(i.Name)
	if i.Opt.Conf != nil {
		conf = *i.Opt.Conf
		conf.Instance = i.Name
	}
	lc := config.LMDB{SchemaTracksChanges: i.Opt.Native, HeaderExtraPaddingBlock: i.Opt.Padding, DupSortHack: i.Opt.DupSortHack, DBIOptions: i.Opt.DBIOptions}
	s, err := syncer.New(i.DB, i.Env, i.B, conf, lc, i.Opt.Options)
	if err != nil {
		return err
	}
	i.S, i.Conf, i.LC = s, conf, lc
	return nil
}

func (i *Inst) Close() { i.Env.Close() }

// ---------------------------------------------------------------- sync steps

// Send calls the real SendOnce and returns the name of the blob it stored
// ("" if none) with the returned transaction id.
func (i *Inst) Send(ctx context.Context) (blob string, txnID header.TxnID, err error) {
	before := map[string]bool{}
	for _, n := range i.B.Names() {
		before[n] = true
	}
	txnID, err = i.S.SendOnce(ctx, i.Env)
	if err != nil {
		return "", 0, err
	}
	for _, n := range i.B.Names() {
		if !before[n] {
			blob = n
		}
	}
	return blob, txnID, nil
}

// UpdateFromBlob builds the snapshot.Update the receiver would deliver.
func UpdateFromBlob(name string, data []byte) (snapshot.Update, error) {
	ni, err := snapshot.ParseName(name)
	if err != nil {
		return snapshot.Update{}, err
	}
	s, err := snapshot.LoadData(data)
	if err != nil {
		return snapshot.Update{}, err
	}
	return snapshot.Update{Snapshot: s, NameInfo: ni}, nil
}

// LoadBlob merges a stored blob through the real LoadOnce.
func (i *Inst) LoadBlob(ctx context.Context, name string, lastTxn header.TxnID) (header.TxnID, bool, error) {
	data, ok := i.B.Get(name)
	if !ok {
		return 0, false, fmt.Errorf("no blob %s", name)
	}
	return i.LoadBytes(ctx, name, data, lastTxn)
}

func (i *Inst) LoadBytes(ctx context.Context, name string, data []byte, lastTxn header.TxnID) (header.TxnID, bool, error) {
	u, err := UpdateFromBlob(name, data)
	if err != nil {
		return 0, false, err
	}
	return i.S.LoadOnce(ctx, i.Env, u.NameInfo.InstanceID, u, lastTxn)
}

// LoadSnap merges a harness-built snapshot (encoded by the independent encoder).
func (i *Inst) LoadSnap(ctx context.Context, s *wire.Snap, from string, ts time.Time, lastTxn header.TxnID) (header.TxnID, bool, error) {
	name := snapshot.Name(i.DB, from, "GX", ts)
	return i.LoadBytes(ctx, name, wire.Gzip(wire.EncodeSnapshot(s)), lastTxn)
}

// EmptySnap is a snapshot that brings nothing.
func EmptySnap(db, from string) *wire.Snap {
	return &wire.Snap{FormatVersion: 3, CompatVersion: 1, Meta: wire.Meta{DatabaseName: db, InstanceID: from, GenerationID: "GX", TimestampNano: 1}}
}

// ---------------------------------------------------------------- application

// Ver is a logical version.
type Ver struct {
	TS  uint64
	Del bool
	Val string
}

func (v Ver) String() string {
	if v.Del {
		return fmt.Sprintf("(%d,deleted)", v.TS)
	}
	return fmt.Sprintf("(%d,%q)", v.TS, v.Val)
}

// NativePut writes a native value (header + value) as an application does:
// current transaction id, given timestamp. del writes a deletion marker.
func NativePut(txn *lmdb.Txn, dbi string, key []byte, ts uint64, del bool, val []byte) error {
	return NativePutFlags(txn, dbi, 0, key, ts, del, val)
}

// NativePutFlags is NativePut for a DBI created with the given flags (MDB_INTEGERKEY...).
func NativePutFlags(txn *lmdb.Txn, dbi string, createFlags uint, key []byte, ts uint64, del bool, val []byte) error {
	fl := uint8(0)
	if del {
		fl = 1
		val = nil
	}
	return lmdbx.Put(txn, dbi, createFlags, key, hdr.Make(ts, uint64(txn.ID()), fl, nil, val))
}

// ---------------------------------------------------------------- observation

// State is the logical content: dbi -> key -> version.
type State map[string]map[string]Ver

// Logical reads the timestamped DBIs (native DBIs in native mode, shadow DBIs
// otherwise; names without the shadow prefix) with the independent reader.
func (i *Inst) Logical() (State, error) {
	d, _, err := lmdbx.DumpEnv(i.Env)
	if err != nil {
		return nil, err
	}
	return LogicalOf(d, i.Opt.Native)
}

func LogicalOf(d lmdbx.Dump, native bool) (State, error) {
	st := State{}
	for name, dd := range d {
		var logical string
		switch {
		case native && !strings.HasPrefix(name, "_sync"):
			logical = name
		case !native && strings.HasPrefix(name, ShadowPrefix):
			logical = strings.TrimPrefix(name, ShadowPrefix)
		default:
			continue
		}
		m := map[string]Ver{}
		for _, kv := range dd.KVs {
			h, app, err := hdr.Read(kv.V)
			if err != nil {
				return nil, fmt.Errorf("dbi %s key %x: %w", name, kv.K, err)
			}
			m[string(kv.K)] = Ver{TS: h.TS, Del: h.Deleted(), Val: string(app)}
		}
		st[logical] = m
	}
	return st, nil
}

// AppView is what the application sees: dbi -> key -> value.
type AppView map[string]map[string]string

func (i *Inst) App() (AppView, error) {
	d, _, err := lmdbx.DumpEnv(i.Env)
	if err != nil {
		return nil, err
	}
	return AppOf(d, i.Opt.Native)
}

func AppOf(d lmdbx.Dump, native bool) (AppView, error) {
	av := AppView{}
	for name, dd := range d {
		if strings.HasPrefix(name, "_sync") {
			continue
		}
		m := map[string]string{}
		for _, kv := range dd.KVs {
			if native {
				h, app, err := hdr.Read(kv.V)
				if err != nil {
					return nil, err
				}
				if !h.Deleted() {
					m[string(kv.K)] = string(app)
				}
			} else {
				// dupsort DBIs: key may repeat; join values
				if old, ok := m[string(kv.K)]; ok && dd.Flags&lmdb.DupSort != 0 {
					m[string(kv.K)] = old + "\x00|\x00" + string(kv.V)
				} else {
					m[string(kv.K)] = string(kv.V)
				}
			}
		}
		av[name] = m
	}
	return av, nil
}

// DiffState describes differences between two logical states.
func DiffState(a, b State) string {
	var out []string
	names := map[string]bool{}
	for n := range a {
		names[n] = true
	}
	for n := range b {
		names[n] = true
	}
	var ns []string
	for n := range names {
		ns = append(ns, n)
	}
	sort.Strings(ns)
	for _, n := range ns {
		x, y := a[n], b[n]
		keys := map[string]bool{}
		for k := range x {
			keys[k] = true
		}
		for k := range y {
			keys[k] = true
		}
		var ks []string
		for k := range keys {
			ks = append(ks, k)
		}
		sort.Strings(ks)
		for _, k := range ks {
			vx, okx := x[k]
			vy, oky := y[k]
			if okx != oky || vx != vy {
				sx, sy := "absent", "absent"
				if okx {
					sx = vx.String()
				}
				if oky {
					sy = vy.String()
				}
				out = append(out, fmt.Sprintf("%s[%q]: %s vs %s", n, k, sx, sy))
				if len(out) >= 5 {
					return strings.Join(out, "; ")
				}
			}
		}
	}
	return strings.Join(out, "; ")
}

// StateOfSnap converts a decoded snapshot to a logical state (format >= 2 semantics).
func StateOfSnap(s *wire.Snap) State {
	st := State{}
	for _, d := range s.DBIs {
		m := map[string]Ver{}
		for _, e := range d.Entries {
			v := Ver{TS: e.TS, Del: e.Flags&1 != 0, Val: string(e.Val)}
			if v.Del {
				v.Val = ""
			}
			m[string(e.Key)] = v
		}
		st[d.Name] = m
	}
	return st
}
