module verif

go 1.25.11

require (
	github.com/PowerDNS/lightningstream v0.0.0
	github.com/anishathalye/porcupine v1.3.0
)

require (
	github.com/CrowdStrike/csproto v0.35.0 // indirect
	github.com/PowerDNS/lmdb-go v1.9.3 // indirect
	github.com/c2h5oh/datasize v0.0.0-20231215233829-aa82cc1e6500 // indirect
	github.com/gogo/protobuf v1.3.2 // indirect
	github.com/golang/protobuf v1.5.4 // indirect
	github.com/klauspost/compress v1.18.6 // indirect
	google.golang.org/protobuf v1.36.11 // indirect
)

replace github.com/PowerDNS/lightningstream => /repo

// same replace as in /repo/go.mod (replace directives are not inherited)
replace github.com/CrowdStrike/csproto => github.com/wojas/csproto v0.0.0-20260107092112-0e013c7984a2
