// Package rng is a small deterministic PRNG (splitmix64) so that every case
// list is a pure function of (tier, seed).
package rng

type R struct{ s uint64 }

func New(seed uint64) *R { return &R{s: seed*0x9E3779B97F4A7C15 + 0x1234567} }

// Derive returns an independent stream for a sub-purpose.
func (r *R) Derive(tag uint64) *R { return New(r.U64() ^ (tag * 0xBF58476D1CE4E5B9)) }

func (r *R) U64() uint64 {
	r.s += 0x9E3779B97F4A7C15
	z := r.s
	z = (z ^ (z >> 30)) * 0xBF58476D1CE4E5B9
	z = (z ^ (z >> 27)) * 0x94D049BB133111EB
	return z ^ (z >> 31)
}

func (r *R) Intn(n int) int {
	if n <= 0 {
		return 0
	}
	return int(r.U64() % uint64(n))
}

func (r *R) Bool() bool { return r.U64()&1 == 1 }

// Chance returns true with probability num/den.
func (r *R) Chance(num, den int) bool { return r.Intn(den) < num }

func (r *R) Bytes(n int) []byte {
	b := make([]byte, n)
	for i := 0; i < n; i += 8 {
		v := r.U64()
		for j := 0; j < 8 && i+j < n; j++ {
			b[i+j] = byte(v >> (8 * j))
		}
	}
	return b
}

// Pick returns one of the values.
func Pick[T any](r *R, vs ...T) T { return vs[r.Intn(len(vs))] }

// Shuffle permutes in place.
func Shuffle[T any](r *R, vs []T) {
	for i := len(vs) - 1; i > 0; i-- {
		j := r.Intn(i + 1)
		vs[i], vs[j] = vs[j], vs[i]
	}
}
