#!/bin/bash
# usage: matrix.sh <repo-dir> <out-file> [seed ...]
# Applies every seeded change (seeded/<id>/patch.diff) to <repo-dir> in turn and runs all quick checks against it.
# Meant for a background run on copies: `vp run --with-repo -- tools/matrix.sh '$VP_RUN_REPO' matrix.txt`
REPO=$1; OUT=$2; shift 2
cd "$(dirname "$0")/.."
ROOT=$(pwd)
if [ "$REPO" != "/repo" ]; then
  sed -i "s#=> /repo#=> $REPO#" harness/go.mod
fi
SEEDS="$@"
[ -z "$SEEDS" ] && SEEDS=$(ls seeded)
PROPS="C01 C02 C03 C04 C05 C06 C07 C08 C09 C10 C11 C12 C13 C14 C15 C16 C17 C18 C19 C20"
: > "$OUT"
for s in $SEEDS; do
  git -C "$REPO" checkout -q -- . 
  if ! git -C "$REPO" apply "$ROOT/seeded/$s/patch.diff"; then echo "$s APPLY-FAILED" >> "$OUT"; continue; fi
  line="$s"
  for p in $PROPS; do
    ./check $p quick > /tmp/matrix-$$.out 2>&1; rc=$?
    sigs=$(grep -a "signature=" /tmp/matrix-$$.out | grep -v KNOWN | sed 's/.*signature=\([^ ]*\).*/\1/' | sort -u | head -3 | tr '\n' ',' )
    if [ $rc -eq 1 ]; then line="$line $p:VIOLATION[$sigs]"; elif [ $rc -ne 0 ]; then line="$line $p:BROKEN($rc)"; fi
  done
  echo "$line" >> "$OUT"
  git -C "$REPO" checkout -q -- .
done
rm -f /tmp/matrix-$$.out
echo DONE >> "$OUT"
