#!/bin/bash
# usage: verify_seed.sh <seed-dir>   e.g. /tmp/seedout/C07a
# Confirms in a scratch worktree: patch applies, builds, suite passes with it,
# demo passes without the patch and fails with it.
d=$1; id=$(basename $d)
export GOFLAGS=-mod=mod GOPROXY=off
wt=/tmp/seedverify-$id
git -C /repo worktree remove --force $wt 2>/dev/null
git -C /repo worktree add -q --detach $wt HEAD || exit 9
trap "git -C /repo worktree remove --force $wt" EXIT
cmd=$(cat $d/demo_cmd.txt | grep -v '^#' | grep -v '^$' | head -1)
pkgdir=$(echo "$cmd" | grep -o '\./[A-Za-z0-9_/.-]*' | tail -1)
cp $d/*_test.go $wt/$pkgdir/ 2>/dev/null
cd $wt
res="$id:"
if timeout 300 bash -c "$cmd" >/tmp/vs-$id-clean.log 2>&1; then res="$res demo_clean=PASS"; else res="$res demo_clean=FAIL"; fi
if git apply $d/patch.diff 2>/tmp/vs-$id-apply.log; then res="$res apply=ok"; else res="$res apply=FAIL"; echo "$res"; exit 1; fi
if go build ./... >/tmp/vs-$id-build.log 2>&1 && go build -tags verif ./... >>/tmp/vs-$id-build.log 2>&1; then res="$res build=ok"; else res="$res build=FAIL"; fi
if timeout 300 bash -c "$cmd" >/tmp/vs-$id-patched.log 2>&1; then res="$res demo_patched=PASS(bad)"; else res="$res demo_patched=FAIL(good)"; fi
if timeout 600 go test -count=1 -skip 'TestSeed' ./... >/tmp/vs-$id-suite.log 2>&1; then res="$res suite=pass"; else res="$res suite=FAIL"; fi
echo "$res"
