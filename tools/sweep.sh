#!/bin/bash
# usage: sweep.sh <seed> <quick|thorough> <outfile>   -- runs every check in turn, one summary line each
cd "$(dirname "$0")/.."
: > "$3"
for p in C01 C02 C03 C04 C05 C06 C07 C08 C09 C10 C11 C12 C13 C14 C15 C16 C17 C18 C19 C20; do
  s=$(date +%s)
  VERIF_SEED=$1 ./check $p $2 > /tmp/sweep-$1-$2-$p.log 2>&1; rc=$?
  e=$(( $(date +%s) - s ))
  echo "$p rc=$rc ${e}s $(grep -a "^$p $2" /tmp/sweep-$1-$2-$p.log | tail -1)" >> "$3"
  grep -a -E "^VIOLATION|CHECK-BROKEN|inconclusive e.g." /tmp/sweep-$1-$2-$p.log | head -3 >> "$3"
done
echo DONE >> "$3"
