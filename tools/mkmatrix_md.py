#!/usr/bin/env python3
"""Renders detection matrices (tools/matrix.sh output) as a markdown table.
usage: mkmatrix_md.py <matrix.txt> [...]  > results/detection-matrix.md"""
import re, sys
rows = {}
for mf in sys.argv[1:]:
    for line in open(mf):
        parts = line.split()
        if not parts or parts[0] == "DONE":
            continue
        sid = parts[0]
        det = {}
        for prop, v in re.findall(r'(C\d\d):((?:VIOLATION\[[^\]]*\])|(?:BROKEN\(\d+\)))', line):
            det[prop] = v
        rows[sid] = det
print("| seed | own check | first signatures of the own check | other quick checks that also report it |")
print("|---|---|---|---|")
missed = []
for sid in sorted(rows):
    det = rows[sid]
    own = sid[:3]
    o = det.get(own, "")
    if o.startswith("VIOLATION"):
        sigs = o[len("VIOLATION["):-1].strip(",").split(",")
        sigs = [s if len(s) < 60 else s[:57] + "..." for s in sigs][:2]
        owns = "detected"
    else:
        sigs, owns = [], "**missed**" if not o else o
        missed.append(sid)
    others = sorted(p for p, v in det.items() if p != own and v.startswith("VIOLATION"))
    print(f"| {sid} | {owns} | {', '.join('`'+s+'`' for s in sigs)} | {' '.join(others)} |")
print()
print(f"{len(rows)} seeds, {len(rows)-len(missed)} detected by the check of their own property" + (f"; missed: {' '.join(missed)}" if missed else "") + ".")
