#!/bin/bash
# usage: seedtest.sh <patch.diff> <property> [tier]   -- apply a seeded change to /repo, run the check, always undo
patch=$(readlink -f "$1"); prop=$2; tier=${3:-quick}
if ! git -C /repo diff --quiet; then echo "/repo not clean"; exit 9; fi
git -C /repo apply "$patch" || { echo "patch does not apply"; exit 8; }
cp /verif/evidence/$prop.json /tmp/seedtest-ev-$$.json 2>/dev/null
trap 'git -C /repo checkout -- . ; cp /tmp/seedtest-ev-$$.json /verif/evidence/$prop.json 2>/dev/null; rm -f /tmp/seedtest-ev-$$.json' EXIT
cd /verif && ./check "$prop" "$tier" > /tmp/seedtest-$$.out 2>&1
rc=$?
grep -a -E "^VIOLATION|^KNOWN-FINDING|^CHECK-BROKEN|signature=" /tmp/seedtest-$$.out | cut -c1-400 | head -8
tail -1 /tmp/seedtest-$$.out | cut -c1-300
echo "rc=$rc"
rm -rf /tmp/seedtest-$$.out /tmp/seedtest-root-$$
