#!/bin/bash
# usage: round5.sh <id> [extra-property ...]  -- verify a freshly delivered seed in /tmp/seedout/<id>, install it under seeded/<id>,
# run it against the quick check of its own property (and any extra ones) on /repo, record a matrix-format row.
cd "$(dirname "$0")/.."
id=$1; shift
v=$(grep -a "^$id:" results/seed-verification-round5.txt 2>/dev/null | tail -1)
if [ -z "$v" ]; then
  v=$(tools/verify_seed.sh /tmp/seedout/$id 2>&1 | tail -1)
  echo "$v" >> results/seed-verification-round5.txt
fi
echo "$v"
case "$v" in *"demo_clean=PASS apply=ok build=ok demo_patched=FAIL(good) suite=pass"*) ;; *) echo "NOT CONFIRMED - not installed"; exit 1;; esac
mkdir -p seeded/$id; cp /tmp/seedout/$id/* seeded/$id/
line="$id"
for p in ${id:0:3} "$@"; do
  out=$(tools/seedtest.sh seeded/$id/patch.diff $p quick 2>&1)
  rc=$(echo "$out" | grep -a -o 'rc=[0-9]*' | tail -1)
  sigs=$(echo "$out" | grep -a "signature=" | grep -v KNOWN | sed 's/.*signature=\([^ ]*\).*/\1/' | sort -u | head -3 | tr '\n' ',')
  echo "  $p $rc [$sigs]"
  if [ "$rc" = "rc=1" ]; then line="$line $p:VIOLATION[$sigs]"; elif [ "$rc" != "rc=0" ]; then line="$line $p:BROKEN(${rc#rc=})"; else line="$line $p:silent"; fi
done
echo "$line" >> results/matrix-round5-own-check.txt
