#!/bin/bash
# validates MANIFEST.json and every evidence file against the schemas
python3-vt - <<'PY'
import json,jsonschema,glob
m=json.load(open('/verif/MANIFEST.json'))
jsonschema.validate(m,json.load(open('/root/.vp/MANIFEST.schema.json')))
es=json.load(open('/root/.vp/EVIDENCE.schema.json'))
for c in m['checks']:
    f=c['evidence_file']
    try:
        jsonschema.validate(json.load(open(f)),es); print('ok',f)
    except Exception as e:
        print('BAD',f,str(e)[:200])
print('manifest valid,',len(m['checks']),'checks')
PY
