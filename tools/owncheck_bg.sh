#!/bin/bash
# usage: owncheck_bg.sh <repo-copy> <out-file> <seed-id> ...  -- for a background run on copies
# (vp run --with-repo -- tools/owncheck_bg.sh '$VP_RUN_REPO' out.txt C01a ...): applies each seeded change to the copy,
# runs the quick check of its own property, reverts.
REPO=$1; OUT=$2; shift 2
cd "$(dirname "$0")/.."
ROOT=$(pwd)
[ "$REPO" != "/repo" ] && sed -i "s#=> /repo#=> $REPO#" harness/go.mod
: > "$OUT"
for s in "$@"; do
  git -C "$REPO" checkout -q -- .
  if ! git -C "$REPO" apply "$ROOT/seeded/$s/patch.diff"; then echo "$s APPLY-FAILED" >> "$OUT"; continue; fi
  ./check ${s:0:3} quick > /tmp/owncheck-$$.out 2>&1; rc=$?
  echo "$s rc=$rc $(grep -a "signature=" /tmp/owncheck-$$.out | grep -v KNOWN | sed 's/.*signature=\([^ ]*\).*/\1/' | sort -u | head -2 | tr '\n' ',')" >> "$OUT"
  git -C "$REPO" checkout -q -- .
done
rm -f /tmp/owncheck-$$.out
echo DONE >> "$OUT"
