#!/usr/bin/env python3
"""Regenerates /verif/MANIFEST.json from the table below (kept valid at all times)."""
import json, os, sys

ROOT = os.path.dirname(os.path.dirname(os.path.abspath(__file__)))

# id -> (category, technique, level text, level note, design ref)
CHECKS = {
 "C01": ("exploration",
  "runtime monitoring of 2-4 real instances driven directly (SendOnce/LoadOnce) under PRNG interleavings: per-merge step oracle with a cross-instance tie table, final convergence oracle against the set of versions ever written, replay under other delivery orders",
  "Hundreds (quick) to thousands (thorough) of generated histories with few keys and conflicting timestamps (incl. 0, equal timestamps on different instances, deletion vs empty value ties) are executed on real LMDBs and real Syncers in native and shadow mode; uploads and merges of arbitrary (not only newest) snapshots are interleaved with application writes; after a closing exchange all instances must hold identical content equal to a highest-timestamp version of everything ever written, within N+1 rounds, independent of the delivery order.",
  "Sweeper disabled; shadow mode on one host clock; application writes monotone per key per instance; empty values in shadow mode are a separate known-finding sub-family.", "DESIGN.md section 6 C01"),
 "C02": ("exploration",
  "runtime monitoring of the real merge routine: algebraic-law and tie-table oracles over an exhaustively enumerated small domain plus seeded random sets; differential strategy.Update vs Merge inside real LMDB transactions",
  "The real NativeIterator.Merge and strategy.Update (real LMDB write transactions) are executed on every pair and every triple (all 6 orders) of a 25-version domain x 3 format versions x 4 cutoffs x default timestamp x padding, and on seeded random sets. Per-step and per-set oracles (monotone, untouched bytes when not winning, consistent ties, order-insensitive up to the documented retention exception, no LMDB transaction for non-winning merges). Exhaustive on the small domain, sampled beyond; held on the executions explored.",
  "Trusted: the independent header reader (hdr), LMDB itself. Versions well-formed. Tie-break not prescribed.", "DESIGN.md section 6 C02"),
 "C03": ("fault_enumeration",
  "runtime monitoring of the real Sync loop under forced schedules: guarded yield points block the loop between its own steps while the harness commits application transactions; read-back oracle at logical quiescence",
  "Every yield point of the loop (11 points: before/between/after each of Lightning Stream's own transactions, env.Info() calls and Store) x 5 change kinds x pending remote snapshot none/no-news(empty LS transaction)/news x earlier commit x native/shadow is enumerated with the real Sync loop running; plus injections ordered after the merge, a family where LoadOnce itself captures the earlier change (the following SendOnce is empty), empty values, header padding and seeded multi-injection schedules. At each idle state (logical clock) and again after a following remote merge every committed key must read back as committed.",
  "Schedule points are yield points between LMDB transactions/bucket calls (transactions are atomic). Staged remote versions cannot win. Poll intervals 1 ms; verdicts use loop iterations, the wall clock is only a watchdog (inconclusive).", "DESIGN.md section 6 C03"),
 "C04": ("exploration",
  "runtime monitoring: per-merge deletion oracles on direct-driven real instances, evaluation of the real config.Sweeper arithmetic over a configuration grid, and end-to-end sweep-then-merge runs with a real sweeper pass",
  "Delete-heavy histories on real instances (a merged marker hides the key unless something newer is stored; older live versions never resurrect it; every uploaded snapshot carries all markers of the LMDB); the real RetentionDuration/RetentionDurationMinusCutoff over a grid of retention_days x load cutoffs (zero, negative, 1%, around 75%, larger than the retention) plus 10^5 random pairs; real sweeper pass followed by a real LoadOnce of a snapshot that still carries markers on both sides of the cutoff (format versions 1-3, with delay): swept markers must not come back, young markers must propagate.",
  "Clock reads bracketed; retention model days x 24h with float32 tolerance.", "DESIGN.md section 6 C04"),
 "C05": ("fault_enumeration",
  "online conservation monitor inside the instrumented bucket (invariant checked atomically with every Store/Delete) while real sync loops are crashed at yield points (runtime.Goexit), restarted, cleaned and subjected to scripted storage faults",
  "Enumerated crash points (13 yield points x occurrence) x LMDB kept/emptied x own-snapshot download held back/failing x application writing before/at start-up x second instance; the real cleaner invoked with a virtual clock at every yield point and inside every (failing) Store attempt while a stale instance's only snapshot is merged; fleets with real background cleaners and List/Load/Store/Delete fault bursts below the retry budget. After every bucket mutation the join over the newest snapshots must not lose or lower any key; no upload before the own newest snapshot was merged.",
  "Crash = loop goroutine ends at a yield point and Sync's deferred cancel stops the helpers; LMDB transactions and bucket operations are atomic; sweeper off.", "DESIGN.md section 6 C05"),
 "C06": ("exploration",
  "runtime monitoring of real SendOnce dumps: every uploaded blob is decoded by the independent decoder and compared with a byte-exact LMDB dump (static) or with the recorded state history of a concurrently committing application (one-transaction membership)",
  "Static: random LMDB contents (empty and flagged DBIs, private decoys, 5000 entries, 511-byte keys, multi-MB values, headers with extension blocks and foreign flag bits) dumped by the real SendOnce and compared entry by entry, plus wire-level field and flag checks, name/metadata/time checks. Concurrent: an application commits multi-DBI transactions back-to-back (counter in two DBIs; DBI creation + index update in one transaction, forced to commit exactly between the dump's preparation and its LMDB transaction at a yield point) while dumps run; native: blob == state of transaction M for all DBIs; shadow: blob == exactly one state within the dump transaction's window.",
  "Only the harness writes besides LS. MDB_REVERSEKEY (documented unsupported) only on empty DBIs.", "DESIGN.md section 6 C06"),
 "C07": ("exploration",
  "runtime differential monitoring of the real codec against two reference decoders over generated and re-encoded inputs",
  "Differential runtime monitor: every generated snapshot (boundary lengths, buffer growth steps, 1000s of entries, multi-MB values, single entries beyond the growth step) is written by the real encoder and read back by the real hand-written decoder, the generated gogo codec and an independent strict wire parser; re-encodings (permuted fields, unknown fields of all wire types at every level, duplicated scalars, split Meta) must be read identically by all three. Held on the executions explored, not a proof.",
  "Trusted: the harness's wire parser (cross-checked against the generated codec on every re-encoding; a disagreement between the two references makes the case inconclusive), Go's compress/gzip. Names/keys non-empty.", "DESIGN.md section 6 C07"),
 "C08": ("exploration",
  "runtime monitoring under hostile inputs: child-process crash/hang/allocation monitor around the real decoder, and event-log oracles over a real Receiver on an instrumented bucket",
  "Tens of thousands of hostile blobs per run (random, truncated, bit-flipped, structurally valid trees with hostile length/tag fields at every nesting level, corrupt gzip, large expansions) are written to disk and fed to the real LoadData + full DBI iteration in child processes: panic, process death, non-termination (logical bound on Next() calls + watchdog) or disproportionate allocation is a violation. A real Receiver.Run with downloaders reads buckets where such blobs are the newest/middle/only blob of instances; delivery, ignore-after-first-download and token-gauge oracles run over the recorded bucket and delivery logs.",
  "Trusted: the independent strict decoder used to classify which blobs are certainly decodable; memory bound 64x(compressed+decompressed)+32MiB; bounded progress = 1500 List cycles.", "DESIGN.md section 6 C08"),
 "C12": ("exploration",
  "runtime monitoring of the real cleaner with a virtual clock: every Delete event in the instrumented bucket's log is judged by an independent safety policy; syncer-level commit-order monitor on a real Sync loop with failing uploads",
  "Thousands of generated listing histories (clock increments on and around both interval boundaries incl. 0, commit notifications before/at/after snapshot times, foreign and malformed names, List/Delete faults) drive the real cleaner.Worker; each of its Delete calls must satisfy the policy clauses, bounded progress is asserted after fault-free runs. A real Sync loop with cleaning enabled is run against a stale foreign instance while the cleaner is invoked at every yield point and during failing/retried Stores; a receive-only Sync must not mutate the bucket.",
  "Snapshots of one instance appear in timestamp order (the property's quantifier).", "DESIGN.md section 6 C12"),
 "C13": ("exploration",
  "runtime monitoring of real sweeper passes chopped into write-lock slices, with an application committing between slices at a yield point; before/after byte-dump oracle with a clock bracket",
  "Real sweep passes over LMDBs with thousands of entries, expired markers placed on and around every 1000-record slice boundary, and an application writing between slices (puts, young/expired markers, physical deletes, also on the resume key). Oracle from byte-exact dumps, the writer's log and the clock bracket of the pass; in non-native mode application DBIs with marker-lookalike values must be untouched.",
  "The exact ts == cutoff nanosecond is not judged; retention tolerance 1 s + float32 rounding.", "DESIGN.md section 6 C13"),
 "C14": ("exploration",
  "runtime monitoring: exhaustive enumeration of extension counts and differential header parsing against an independent reader; write monitor on every value the real merge routine produces",
  "All 65536 extension counts are executed through Header.Bytes/Parse/Skip and compared with an independent reader of the documented layout; differential accept/reject and split on ~10^6 random and near-valid byte strings; PutBasic on dirty buffers; every value written by the real merge routine over the C02 domain (stored values with 1-3 foreign extension blocks, foreign flag bits on incoming entries, padding on/off) is checked for well-formedness and for the id of the writing transaction.",
  "Trusted: hdr.Read (written from docs/schema-native.md).", "DESIGN.md section 6 C14"),
 "C09": ("fault_enumeration",
  "runtime monitoring of the real Sync loop under forced schedules and injected Store faults; the newest own blob in the instrumented bucket is decoded by the independent decoder at every idle state",
  "Same enumerated schedule space as C03 plus Store fault scripts (first 1, 2 or 4 attempts of the upload fail, retry budget 5). Whenever the loop is idle (all staged snapshots merged + 3 activity-free iterations) the newest snapshot under the instance's name must contain every key the application wrote in a version at least as new; Sync returning instead of publishing is a violation.",
  "Forced snapshot interval disabled. Idle = logical clock of loop iterations.", "DESIGN.md section 6 C09"),
 "C10": ("exploration",
  "runtime monitoring: online upload-causality monitor over one ordered event log (application commits, yield points, uploads) on real sync loops, no-op re-merge byte/LastTxnID oracle on direct-driven instances, idle-fleet oracle in logical loop iterations",
  "Every upload of a real Sync loop under the forced schedules of C03/C09 and in fleets of 2-5 loops must be explained by an application commit (or be the first); after direct-drive histories converged, re-merging every snapshot in random order must not change a byte nor LastTxnID; idle fleets must stay silent for 20 loop iterations and upload at most twice after the writers stopped; with a forced snapshot interval the upload rate is bounded by it.",
  "Forced interval off except in its own family; sweeper off; start-up uploads allowed.", "DESIGN.md section 6 C10"),
 "C11": ("exploration",
  "runtime monitoring of a real non-native Syncer stepped through SendOnce/LoadOnce against a map-based reference model of capture, merge and projection",
  "Generated histories (plain and MDB_INTEGERKEY DBIs incl. key 0, DBI creation, inserts/overwrites/deletes/no-op rewrites, remote snapshots older/newer/deleting/adding DBIs) drive the real capture (SendOnce) and capture+merge+project (LoadOnce) steps; after every step the real application DBIs and the raw shadow DBIs must equal the reference model, capture stamps must fall in the step's clock bracket and be uniform, changed shadow values must be well-formed with the writing transaction's id.",
  "Remote timestamps lie in the past of the local clock (documented shared-clock assumption); no ties generated; sweeper off.", "DESIGN.md section 6 C11"),
 "C15": ("exploration",
  "runtime monitoring of the real name builder/parser, of the sanitiser through a real SendOnce, and of a real Receiver on buckets with decoy names",
  "Round-trip and chronological-order oracles over >10^5 generated names per run (every digit-rollover boundary class 1970..2262, +-1ns/1s neighbours, non-UTC locations), panic monitor on arbitrary strings, sanitiser observed through the name and metadata of real uploaded blobs, and a real Receiver run against buckets full of other databases' and malformed names.",
  "Database names over the documented safe alphabet only. Trusted: Go's time package for the reference ordering.", "DESIGN.md section 6 C15"),
 "C16": ("exploration",
  "runtime monitoring of a real Receiver (Run loop, downloaders, token limits) and of run-once Sync on an instrumented, fault-scripted bucket: offline oracles over the delivery log, bucket log and quiescent token gauges; porcupine linearizability check of recorded Acquire/Release histories against a counting semaphore",
  "Generated bucket evolutions (1-12 instances, snapshots appearing, replaced while un-merged, cleaned between List and Load), List/Load fault scripts, corrupt blobs at every position, Load latencies, fast/slow/holding consumers, all limit pairs: bounded-progress delivery (1500 List cycles after changes and faults stop), never more Loads in flight than configured, bounded number of snapshots held between download and hand-over, no token leak at quiescence. Run-once Sync must end by itself, only after every present decodable start-up instance was merged and after its own upload. Token histories with double and cross-goroutine releases are checked with porcupine.",
  "Transient gauge samples are observations only (decrement happens after the token is returned). Poll intervals 1 ms; progress measured in List cycles.", "DESIGN.md section 6 C16"),
 "C17": ("exploration",
  "Go race detector on repeated concurrent workloads with yield-point delay injection (reports de-duplicated by innermost repository frame pair), closed-system wedge detection for topics, cancellation at every yield point, per-process global-storage trials, concurrent token releases",
  "A worker built with -race runs fleets of real sync loops with cleaners, sweepers, writers, storage faults and randomly failing/closing event subscribers; a real Sync is cancelled at every yield point x occurrence and at random instants (ctx-honouring/-ignoring bucket, failing start-up listing) and must return; closed topic systems with forced Close-during-publish must terminate; GetGlobal callers before/concurrent/after SetGlobal (one process per trial) must get a set handle; one token released concurrently from 4 goroutines thousands of times must neither panic nor corrupt the limit.",
  "Only the interleavings produced are judged; races inside cgo/LMDB are invisible; leftover helper goroutines are observations.", "DESIGN.md section 6 C17"),
 "C18": ("fault_enumeration",
  "runtime monitoring of real LoadOnce merges with failures injected at enumerated positions (DBI index x entry position x failure kind), byte-exact before/after dumps of the whole LMDB, and a concurrent reader checking all-or-none per snapshot batch id",
  "Failure kinds: malformed entry bytes (4 variants, lazily parsed so they surface mid-merge), unsupported/inconsistent transforms, pre-v3 snapshot for a missing DBI in shadow mode (with/without override_create_flags), LMDB map full (map 1-8 MB vs snapshots 0.5-16 MB), cancellation after the k-th context poll, format x compat versions 0..4 x 0..4, private DBIs in the snapshot; native and shadow. A failed merge must leave dump and LastTxnID unchanged, a successful one must be complete, a reader must never see part of a snapshot, older formats must keep their documented meaning.",
  "Positions inside a DBI: first/middle/last entry. Cancellation via a context that is cancelled after k polls.", "DESIGN.md section 6 C18"),
 "C19": ("exploration",
  "runtime differential monitoring of the real strategies inside real LMDB transactions against a map model driven by a scripted decision-table iterator",
  "Update, IterUpdate and EmptyPut are executed in real LMDB write transactions with a scripted iterator (keep/replace/delete/append-to-argument per key); the DBI read back in LMDB's own order must equal a map model. Exhaustive over all status x decision assignments for 4 (quick) / 5 (thorough) keys x byte, 4-byte and 8-byte integer key sets, plus random templates up to 5000 keys and disorder (swapped, duplicated, shuffled input).",
  "Iterator honours the interface contract; little-endian host.", "DESIGN.md section 6 C19"),
 "C20": ("exploration",
  "runtime monitoring of the real dupsort encode/decode (through guarded accessors) and of real SendOnce/LoadOnce mirror cycles on MDB_DUPSORT DBIs with a pair-multiset oracle",
  "Adversarial pairs and real dupsort DBI contents go through the real encoder/decoder (round trip, key length, strictly increasing unique keys or refusal); change histories on a real dupsort DBI are mirrored by a real Syncer with dupsort_hack and the application's pair set must stay exactly what the application wrote (or the step must fail with the LMDB untouched); blobs must state transform and original flags; receivers without the hack / inconsistent snapshots must be refused with an unchanged LMDB.",
  "LMDB limits dupsort data items to 511 bytes and rejects empty duplicates; the generator stays inside that.", "DESIGN.md section 6 C20"),
}

# properties not yet claimed (kept current)
NOT_YET = {}

REASON_WIP = "runtime monitor designed (DESIGN.md section 6) but its check is not built yet in this session; not claimed"

# families added while closing the misses of the seeded rounds (DESIGN.md 13.6)
ADDED = {
 "C01": " Also: histories in which the application empties a whole DBI, a capture oracle after every SendOnce (application DBI = live entries, the rest markers), an MDB_INTEGERKEY DBI in every third history, and real loops in which the newest write lands at each of 8 yield points of the writer's own loop followed by silence.",
 "C02": " Also: format version per entry (mixed producers), DBI messages that repeat a key (merged in listing order, into empty and non-empty DBIs).",
 "C03": " Also: stale-marker-only merges with the sweeper cutoff on, a DBI emptied by the application, a receive-only instance with a local application, and restarts with commits made while the syncer was down or starting.",
 "C04": " Also: stale markers meeting an older live version (must delete it), snapshots taken 2%/50% of the retention ago, fractional retentions and the survival of young local markers through the sweep.",
 "C06": " Also: operator-style instance names, a non-UTC local time zone, and every cancellation position of SendOnce (a context that turns cancelled at its n-th inspection): whatever is uploaded is a complete image.",
 "C07": " Also: name/transform lengths across the 1-, 2- and 3-byte length varint boundaries, independently.",
 "C08": " Also: a real Sync whose OWN newest snapshot is undecodable (older valid one present, retries faster than the storage poll): the older one is merged and the instance keeps uploading; one watchdog per hostile input.",
 "C09": " Also: the restart family (commits while the syncer was down or starting must be in the newest own snapshot once idle) and stale-marker-only merges.",
 "C10": " Also: dupsort fleets, applications creating empty DBIs (also in an idle fleet), and the exact forced-interval clause (a snapshot without local change starts more than the interval after the previous Store returned; slow-Store fleets).",
 "C11": " Also: loop-protocol mode (transaction ids carried as syncLoop does), window mode (sweeper cutoff on, stale-marker-only loads, application commits made from the yield point inside a step) and a future-stamp family judged only by the model-free invariant application DBIs = live entries of the timestamped state.",
 "C12": " Also: a two-phase forced-cleaner scenario with a real Syncer (newer snapshot of a stale instance merged without re-publication).",
 "C13": " Also: byte-identical bulk markers around slice boundaries, an exact bracket of the pass's cutoff ([t0, end of first slice]) with a ladder of markers that expire during the pass, stamps >= 2^63, and a retention reaching back before 1970.",
 "C14": " Also: deleted snapshot entries that still carry a payload (stored as header-only markers) and arbitrary byte strings as STORED values through the real Merge and Clean (rejected by the documented format <=> refused with an error).",
 "C15": " Also: whatever ParseName accepts is exactly the name rebuilt from its components and has a registered extension after its first dot; a real cleaner next to databases whose names extend or shorten its own; several snapshots within one second.",
 "C16": " Also: an instance that vanishes and reappears while its downloader is parked at its existing log call.",
 "C17": " Also: cancellation while a failing Store is retried forever, undecodable blobs arriving during fleets, a storage handle set 10 s late; wedge verdicts come from goroutine states and logical progress, not from wall-clock deadlines.",
 "C19": " Also: zero-length stored values.",
}
NOTE_OVERRIDE = {
 "C11": "Model-based families: remote timestamps lie in the past of the local clock (documented shared-clock premise), no ties. The future-stamp family asserts only the projection invariant. Sweeper off except in window mode (enabled, never runs).",
}


def main():
    ids = ["C%02d" % i for i in range(1, 21)]
    checks = []
    for pid in ids:
        if pid not in CHECKS:
            continue
        cat, tech, text, note, ref = CHECKS[pid]
        text += ADDED.get(pid, "")
        note = NOTE_OVERRIDE.get(pid, note)
        checks.append({
            "property_id": pid,
            "quick_cmd": "./check %s quick" % pid,
            "thorough_cmd": "./check %s thorough" % pid,
            "evidence_file": "/verif/evidence/%s.json" % pid,
            "replay_cmd_template": "./check %s --replay {path}" % pid,
            "engine": "runner",
            "level_claimed": {"category": cat, "text": text, "design_ref": ref},
            "level_note": note,
            "technique": tech,
        })
    na = [{"property_id": pid, "reason": NOT_YET.get(pid, REASON_WIP)} for pid in ids if pid not in CHECKS]
    m = {
        "version": 1,
        "setup_cmd": "cd /verif/harness && GOFLAGS=-mod=mod GOPROXY=off go build -tags verif ./... && mkdir -p /verif/.bin /verif/evidence /verif/replays",
        "hooks": {
            "guard": "verif (Go build tag)",
            "enable": "go build -tags verif; the harness module /verif/harness has `replace github.com/PowerDNS/lightningstream => /repo`, so every check recompiles /repo's working tree with the hooks on",
            "baseline_off_cmd": "cd /repo && GOFLAGS=-mod=mod GOPROXY=off go test -json -vet=off -count=1 -timeout 25m ./...",
            "source_commits": ["8d4a027", "7fa356f", "8f021c6", "1a34499"],
            "add_only": True,
        },
        "engines": [{"name": "runner", "path": "/verif/harness/runner", "serves_properties": sorted(CHECKS),
                     "kind_free_text": "parent/child case runner for runtime monitors: deterministic case lists from (tier, VERIF_SEED), child processes with per-case watchdog (process-fatal outcomes are attributed and confirmed), three-valued verdicts, known-findings matching, evidence and replay files"}],
        "checks": checks,
        "not_applicable": na,
        "notes": "All checks are runtime monitors over executions of the real code (DESIGN.md). ./check <id> <quick|thorough> rebuilds the worker from /repo's working tree with -tags verif; VERIF_SEED selects the seeded part of the case list. known_findings.txt lists open findings (printed as KNOWN-FINDING) and fixed ones.",
    }
    json.dump(m, open(os.path.join(ROOT, "MANIFEST.json"), "w"), indent=1)
    print("manifest: %d checks, %d not claimed" % (len(checks), len(na)))

if __name__ == "__main__":
    main()
