#!/bin/bash
# usage: install_seed.sh <id> ...   -- copies verified /tmp/seedout/<id> to seeded/<id> and runs the seed against its own property's quick check
cd /verif
for id in "$@"; do
  mkdir -p seeded/$id; cp /tmp/seedout/$id/* seeded/$id/
  echo "== $id: $(head -c 200 seeded/$id/notes.md | tr '\n' ' ')"
  tools/seedtest.sh seeded/$id/patch.diff ${id:0:3} quick 2>&1 | grep -a -E "signature|rc=|BROKEN|apply" | grep -v KNOWN | cut -c1-230 | head -5
done
