#!/usr/bin/env python3
"""Writes seeded/<id>/meta.json from notes.md, demo_cmd.txt and detection matrix files
(output of tools/matrix.sh). usage: mkmeta.py <matrix.txt> [<matrix2.txt> ...]"""
import json, os, re, sys

ROOT = os.path.dirname(os.path.dirname(os.path.abspath(__file__)))
matrix = {}
for mf in sys.argv[1:]:
    if not os.path.exists(mf):
        continue
    for line in open(mf):
        parts = line.split()
        if not parts or parts[0] == "DONE":
            continue
        sid = parts[0]
        det = {}
        for tok in re.findall(r'(C\d\d):(VIOLATION\[[^\]]*\]|BROKEN\(\d+\))', line):
            det[tok[0]] = tok[1]
        matrix[sid] = det

PORTED = {"C16a", "C08d", "C01c", "C03d", "C11d", "C08f", "C03a", "C04b", "C09a", "C10a", "C11a", "C14a", "C15c"}

# seeds that the unchanged suite itself catches on the final tree (a later fix made an existing test sensitive to them)
CAUGHT_BY_SUITE_ON_FINAL_TREE = {"C07b": "b2cd177"}

for sid in sorted(os.listdir(os.path.join(ROOT, "seeded"))):
    d = os.path.join(ROOT, "seeded", sid)
    if not os.path.isdir(d):
        continue
    notes = open(os.path.join(d, "notes.md")).read() if os.path.exists(os.path.join(d, "notes.md")) else ""
    needs = []
    for para in re.split(r'\n\s*\n', notes):
        if re.search(r'\bneed|manifest|requires|trigger', para, re.I):
            needs.append(" ".join(para.split()))
    demo = open(os.path.join(d, "demo_cmd.txt")).read().strip() if os.path.exists(os.path.join(d, "demo_cmd.txt")) else ""
    prop = sid[:3]
    det = matrix.get(sid, {})
    meta = {
        "id": sid,
        "breaks_property": prop,
        "round": {"a": 1, "b": 1, "c": 2, "d": 2, "e": 3, "f": 3, "g": 4, "h": 4, "i": 5, "j": 5}[sid[3]],
        "origin": "independent sub-agent given only the property text and its own scratch worktree of /repo (nothing from /verif)" + ("" if sid[3] in "ab" else "; later rounds: plus one-paragraph descriptions of the earlier changes of that property, to avoid repeats"),
        "ported_after_fix_commits": sid in PORTED,
        "passes_existing_suite_on_final_tree": sid not in CAUGHT_BY_SUITE_ON_FINAL_TREE,
        "needs_in_order_to_manifest": needs[:3] if needs else [" ".join(notes.split())[:600]],
        "demonstration": {"files": sorted(f for f in os.listdir(d) if f.endswith("_test.go")), "command": demo},
        "confirmed_by": "tools/verify_seed.sh in a fresh scratch worktree: patch applies to HEAD, `go build ./...` and `go build -tags verif ./...` succeed, the unedited suite passes with the patch (`go test -count=1 -skip TestSeed ./...`), the demonstration passes without the patch and fails with it",
        "checks_run": ("tools/seedtest.sh on /repo itself: patch applied, the quick checks named below run, patch reverted (round 5: not every check was run against it)" if sid[3] in "ij" else "tools/matrix.sh on a copy of /repo: patch applied, every quick check run, patch reverted"),
        "detected_by_quick_checks": {k: v for k, v in sorted(det.items()) if v.startswith("VIOLATION")},
        "detected_by_own_property_check": prop in det and det[prop].startswith("VIOLATION"),
    }
    json.dump(meta, open(os.path.join(d, "meta.json"), "w"), indent=1)
print("wrote meta.json for", len(os.listdir(os.path.join(ROOT, "seeded"))), "seeds;", len(matrix), "with matrix rows")
